import ShredModel.Lemmas.WorldInv
/-!
# C09 lemmas: the world as a typed map — abstraction, type tags, drop accounting.
-/
namespace Shred
open World

/-- the abstract map: which value (token) is stored under which id -/
def World.abs (w : World) : ResId → Option Nat := fun k => (w.get k).map (·.token)

/-- point update of the abstract map -/
def upd (m : ResId → Option Nat) (k : ResId) (v : Option Nat) : ResId → Option Nat :=
  fun k' => if k' = k then v else m k'

/-- the value stored under an id has the type named by the id -/
def Typed (w : World) : Prop := ∀ k c, w.get k = some c → c.ty = k.ty

def KeysNodup (w : World) : Prop := (w.cells.map (·.1)).Nodup

/-- tokens of the values currently stored -/
def World.tokens (w : World) : List Nat := w.cells.map (·.2.token)

/-- conservation of values: everything created is stored, was handed back, or was dropped —
with multiplicity -/
def Linear (w : World) : Prop :=
  ∀ t, w.tokens.count t + w.returned.count t + w.dropped.count t = w.created.count t

/-! ## operations that only touch borrow counters -/

/-- `w'` differs from `w` at most in borrow counters, guards and the handle counter -/
structure SameData (w w' : World) : Prop where
  data : ∀ k, (w'.get k).map (fun c => (c.ty, c.token)) = (w.get k).map (fun c => (c.ty, c.token))
  keys : w'.cells.map (·.1) = w.cells.map (·.1)
  toks : w'.tokens = w.tokens
  created : w'.created = w.created
  returned : w'.returned = w.returned
  dropped : w'.dropped = w.dropped

theorem SameData.refl (w : World) : SameData w w := ⟨fun _ => rfl, rfl, rfl, rfl, rfl, rfl⟩

theorem SameData.trans {a b c : World} (h1 : SameData a b) (h2 : SameData b c) : SameData a c :=
  ⟨fun k => (h2.data k).trans (h1.data k), h2.keys.trans h1.keys, h2.toks.trans h1.toks,
   h2.created.trans h1.created, h2.returned.trans h1.returned, h2.dropped.trans h1.dropped⟩

theorem SameData.abs {w w' : World} (h : SameData w w') : w'.abs = w.abs := by
  funext k
  have := congrArg (Option.map Prod.snd) (h.data k)
  simpa [World.abs, Option.map_map, Function.comp_def] using this

theorem SameData.typed {w w' : World} (h : SameData w w') (ht : Typed w) : Typed w' := by
  intro k c hc
  have := h.data k
  rw [hc] at this
  cases hk : w.get k with
  | none => rw [hk] at this; simp at this
  | some c0 =>
    rw [hk] at this; simp at this
    rw [this.1]; exact ht k c0 hk

theorem SameData.keysNodup {w w' : World} (h : SameData w w') (hk : KeysNodup w) : KeysNodup w' := by
  unfold KeysNodup; rw [h.keys]; exact hk

theorem SameData.linear {w w' : World} (h : SameData w w') (hl : Linear w) : Linear w' := by
  intro t; rw [h.toks, h.returned, h.dropped, h.created]; exact hl t

theorem setCell_keys_same {k : ResId} {c c' : Cell} {l : List (ResId × Cell)} (h : lookupCell k l = some c) :
    (setCell k c' l).map (·.1) = l.map (·.1) := by
  induction l with
  | nil => simp [lookupCell] at h
  | cons p rest ih =>
    by_cases h1 : p.1 = k
    · simp [setCell, h1]
    · simp [lookupCell, h1] at h
      simp [setCell, h1, ih h]

theorem setCell_tokens_same {k : ResId} {c c' : Cell} {l : List (ResId × Cell)} (h : lookupCell k l = some c)
    (ht : c'.token = c.token) : (setCell k c' l).map (·.2.token) = l.map (·.2.token) := by
  induction l with
  | nil => simp [lookupCell] at h
  | cons p rest ih =>
    by_cases h1 : p.1 = k
    · simp [lookupCell, h1] at h
      simp [setCell, h1, ht, h]
    · simp [lookupCell, h1] at h
      simp [setCell, h1, ih h]

/-- rewriting the borrow counter of a present cell changes no data -/
theorem sameData_setBorrow {w : World} {k : ResId} {c : Cell} (h : w.get k = some c) (b : Borrow)
    (gs : List (Nat × Guard)) (n : Nat) :
    SameData w { w with cells := setCell k { c with borrow := b } w.cells, guards := gs, nextHandle := n } := by
  refine ⟨?_, setCell_keys_same h, setCell_tokens_same h rfl, rfl, rfl, rfl⟩
  intro k'
  by_cases hk : k' = k
  · subst hk; simp [get_def] at h ⊢; simp [h]
  · simp [get_def, lookup_setCell_other _ _ hk]

theorem fetchCore_same (w : World) (k : ResId) (excl : Bool) (f : Form) (orPanic : Bool) :
    SameData w (w.fetchCore k excl f orPanic).1 := by
  rcases fetchCore_cases w k excl f orPanic with ⟨h, _⟩ | ⟨c, b', hc, _, he⟩
  · rw [h]; exact SameData.refl w
  · rw [he]; exact sameData_setBorrow hc _ _ _

theorem release_same (w : World) (h : Nat) : SameData w (w.release h) := by
  cases hf : findGuard h w.guards with
  | none => rw [release_dead hf]; exact SameData.refl w
  | some g =>
    cases hg : w.get g.key with
    | none => rw [release_absent hf hg]; exact ⟨fun _ => rfl, rfl, rfl, rfl, rfl, rfl⟩
    | some c => rw [release_live hf hg]; exact sameData_setBorrow hg _ _ _

theorem releaseData_same (w : World) (fs : List (Option (Nat × Nat))) : SameData w (w.releaseData fs) := by
  induction fs generalizing w with
  | nil => exact SameData.refl w
  | cons f rest ih =>
    cases f with
    | none => exact ih w
    | some p => exact (release_same w p.1).trans (ih _)

theorem sysData_same (w : World) (items : List SdItem) : SameData w (w.sysData items).1 := by
  induction items generalizing w with
  | nil => exact SameData.refl w
  | cons it rest ih =>
    rcases sysData_cons w it rest with ⟨_, _, _, he⟩ | ⟨p, _, he⟩ | ⟨c, b', hc, hb, he⟩
    · rw [he]
      have := ih w
      generalize w.sysData rest = r at this
      obtain ⟨w2, o⟩ := r
      cases o <;> exact this
    · rw [he]; exact SameData.refl w
    · rw [he]
      have h1 : SameData w _ := sameData_setBorrow hc b' (w.guards ++ [(w.nextHandle, ⟨⟨it.ty, 0⟩, it.write⟩)]) (w.nextHandle + 1)
      have := h1.trans (ih _)
      generalize sysData _ rest = r at this
      obtain ⟨w2, o⟩ := r
      cases o <;> first | exact this | exact this.trans (release_same _ _)

theorem metaNext_same (w : World) (tys : List Nat) (idx : Nat) (excl : Bool) :
    SameData w (w.metaNext tys idx excl).1 := by
  unfold metaNext
  rcases metaScan_cases w excl (tys.drop idx) idx with ⟨h1, _⟩ | ⟨_, ty, _, _, _, _, h1, _⟩
  · rw [h1]; exact SameData.refl w
  · rw [h1]; exact fetchCore_same _ _ _ _ _

theorem cloneGuard_same (w : World) (h : Nat) : SameData w (w.cloneGuard h).1 := by
  unfold cloneGuard
  split
  · split
    · exact SameData.refl w
    · exact fetchCore_same _ _ _ _ _
  · exact SameData.refl w

theorem releaseAll_same (w : World) (hs : List Nat) : SameData w (releaseAll w hs) := by
  induction hs generalizing w with
  | nil => exact SameData.refl w
  | cons h t ih => exact (release_same w h).trans (ih _)

theorem take_same (w : World) (tys : List Nat) (ri wi : Nat) (prior : List Nat) (t : Take) :
    SameData w (t.run w tys ri wi prior).1 := by
  cases t with
  | fetch ty excl orPanic => exact fetchCore_same _ _ _ _ _
  | byId a k excl =>
    cases excl
    · simp only [Take.run, Bool.false_eq_true, if_false, tryFetchById]
      split
      · exact SameData.refl w
      · exact fetchCore_same _ _ _ _ _
    · simp only [Take.run, if_true, tryFetchMutById]
      split
      · exact SameData.refl w
      · exact fetchCore_same _ _ _ _ _
  | data items => exact sysData_same w items
  | iter excl => exact metaNext_same w _ _ _
  | cloneLocal i =>
    simp only [Take.run]
    split
    · exact cloneGuard_same w _
    · exact SameData.refl w
  | cloneOuter h => exact cloneGuard_same w h

theorem scopeBody_same (tys : List Nat) (takes : List Take) (w : World) (ri wi : Nat) (prior : List Nat) :
    SameData w (scopeBody tys takes w ri wi prior).1 := by
  induction takes generalizing w ri wi prior with
  | nil => exact SameData.refl w
  | cons t rest ih =>
    have ht := take_same w tys ri wi prior t
    unfold scopeBody
    generalize t.run w tys ri wi prior = r at ht
    obtain ⟨w1, o⟩ := r
    cases o <;> first | exact ht | exact ht.trans (ih _ _ _ _)

/-- a closure that only takes and drops guards changes no data -/
theorem scope_same (w : World) (tys : List Nat) (takes : List Take) (e : Bool) :
    SameData w (w.scope tys takes e).1 :=
  (scopeBody_same tys takes w 0 0 []).trans (releaseAll_same _ _)

/-! ## the table as a multiset of values -/

theorem eraseCell_not_mem {k : ResId} {l : List (ResId × Cell)} (h : k ∉ l.map (·.1)) : eraseCell k l = l := by
  induction l with
  | nil => rfl
  | cons p rest ih =>
    simp only [List.map_cons, List.mem_cons, not_or] at h
    have h1 : p.1 ≠ k := fun e => h.1 e.symm
    simp [eraseCell, h1, ih h.2]

theorem lookup_none_of_not_mem {k : ResId} {l : List (ResId × Cell)} (h : k ∉ l.map (·.1)) : lookupCell k l = none := by
  induction l with
  | nil => rfl
  | cons p rest ih =>
    simp only [List.map_cons, List.mem_cons, not_or] at h
    have h1 : p.1 ≠ k := fun e => h.1 e.symm
    simp [lookupCell, h1, ih h.2]

theorem lookup_some_mem {k : ResId} {c : Cell} {l : List (ResId × Cell)} (h : lookupCell k l = some c) :
    k ∈ l.map (·.1) := by
  cases hm : decide (k ∈ l.map (·.1)) with
  | true => exact of_decide_eq_true hm
  | false => rw [lookup_none_of_not_mem (of_decide_eq_false hm)] at h; cases h

theorem count_tokens_setCell (k : ResId) (c : Cell) (l : List (ResId × Cell)) (t : Nat) :
    ((setCell k c l).map (·.2.token)).count t + (((lookupCell k l).map (·.token)).toList).count t =
      (l.map (·.2.token)).count t + [c.token].count t := by
  induction l with
  | nil => simp [setCell, lookupCell]
  | cons p rest ih =>
    by_cases h1 : p.1 = k
    · simp only [setCell, lookupCell, h1, if_true, List.map_cons, List.count_cons, Option.map_some,
        Option.toList_some, List.count_nil]
      omega
    · simp only [setCell, lookupCell, h1, if_false, List.map_cons, List.count_cons] at ih ⊢
      omega

theorem count_tokens_eraseCell {k : ResId} {c : Cell} {l : List (ResId × Cell)} (hn : (l.map (·.1)).Nodup)
    (h : lookupCell k l = some c) (t : Nat) :
    ((eraseCell k l).map (·.2.token)).count t + [c.token].count t = (l.map (·.2.token)).count t := by
  induction l with
  | nil => simp [lookupCell] at h
  | cons p rest ih =>
    simp only [List.map_cons, List.nodup_cons] at hn
    by_cases h1 : p.1 = k
    · simp [lookupCell, h1] at h
      rw [h1] at hn
      simp only [eraseCell, h1, if_true, eraseCell_not_mem hn.1, List.map_cons, List.count_cons, h,
        List.count_nil]
      omega
    · simp [lookupCell, h1] at h
      have := ih hn.2 h
      simp only [eraseCell, h1, if_false, List.map_cons, List.count_cons] at this ⊢
      omega

theorem keys_setCell_nodup {k : ResId} {c : Cell} {l : List (ResId × Cell)} (hn : (l.map (·.1)).Nodup) :
    ((setCell k c l).map (·.1)).Nodup := by
  cases h : lookupCell k l with
  | some c0 => rw [setCell_keys_same h]; exact hn
  | none =>
    have hk : k ∉ l.map (·.1) := fun hm => by
      induction l with
      | nil => simp at hm
      | cons p rest ih =>
        by_cases h1 : p.1 = k
        · simp [lookupCell, h1] at h
        · simp [lookupCell, h1] at h
          simp only [List.map_cons, List.mem_cons] at hm
          rcases hm with hm | hm
          · exact h1 hm.symm
          · simp only [List.map_cons, List.nodup_cons] at hn
            exact ih hn.2 h hm
    have hs : (setCell k c l).map (·.1) = l.map (·.1) ++ [k] := by
      clear hn h
      induction l with
      | nil => simp [setCell]
      | cons p rest ih =>
        simp only [List.map_cons, List.mem_cons, not_or] at hk
        have h1 : p.1 ≠ k := fun e => hk.1 e.symm
        simp [setCell, h1, ih hk.2]
    rw [hs]
    rw [List.nodup_append]
    refine ⟨hn, by simp, ?_⟩
    intro a ha b hb
    simp at hb; subst hb
    intro e; subst e; exact hk ha

theorem keys_eraseCell_nodup {k : ResId} {l : List (ResId × Cell)} (hn : (l.map (·.1)).Nodup) :
    ((eraseCell k l).map (·.1)).Nodup := by
  have : ((eraseCell k l).map (·.1)).Sublist (l.map (·.1)) := by
    clear hn
    induction l with
    | nil => simp [eraseCell]
    | cons p rest ih =>
      by_cases h1 : p.1 = k
      · simp only [eraseCell, h1, if_true, List.map_cons]
        exact List.Sublist.cons _ ih
      · simp only [eraseCell, h1, if_false, List.map_cons]
        exact List.Sublist.cons_cons _ ih
  exact hn.sublist this

/-! ## `&mut` operations against the abstract map -/

theorem abs_setCell (w : World) (k : ResId) (c : Cell) (gs : List (Nat × Guard)) (n : Nat) (cr re dr : List Nat) :
    World.abs { cells := setCell k c w.cells, guards := gs, nextHandle := n, created := cr, returned := re, dropped := dr } =
      upd w.abs k (some c.token) := by
  funext k'
  by_cases hk : k' = k
  · subst hk; simp [World.abs, upd, get_def]
  · simp [World.abs, upd, get_def, lookup_setCell_other _ _ hk, hk]

theorem abs_eraseCell (w : World) (k : ResId) (gs : List (Nat × Guard)) (n : Nat) (cr re dr : List Nat) :
    World.abs { cells := eraseCell k w.cells, guards := gs, nextHandle := n, created := cr, returned := re, dropped := dr } =
      upd w.abs k none := by
  funext k'
  by_cases hk : k' = k
  · subst hk; simp [World.abs, upd, get_def]
  · simp [World.abs, upd, get_def, lookup_eraseCell_other _ hk, hk]

theorem abs_ghost (w : World) (cr re dr : List Nat) :
    World.abs { w with created := cr, returned := re, dropped := dr } = w.abs := rfl

/-- `insert_by_id` with the right type argument replaces the value under `k` -/
theorem insertById_abs (w : World) (a : Nat) (k : ResId) (t : Nat) :
    (w.insertById a k t).1.abs = if a ≠ k.ty then w.abs else upd w.abs k (some t) := by
  unfold insertById
  split
  · rfl
  · exact abs_setCell w k ⟨a, t, .free⟩ _ _ _ _ _

theorem insertById_out (w : World) (a : Nat) (k : ResId) (t : Nat) :
    (w.insertById a k t).2 = if a ≠ k.ty then .panic .wrongType else .unit := by
  unfold insertById; split <;> rfl

theorem removeById_abs (w : World) (a : Nat) (k : ResId) :
    (w.removeById a k).1.abs = if a ≠ k.ty then w.abs else upd w.abs k none := by
  unfold removeById
  split
  · rfl
  · cases hk : w.get k with
    | none =>
      funext k'
      by_cases h : k' = k
      · subst h; simp [World.abs, upd, hk]
      · simp [upd, h]
    | some c => exact abs_eraseCell w k _ _ _ _ _

theorem removeById_out (w : World) (a : Nat) (k : ResId) :
    (w.removeById a k).2 = if a ≠ k.ty then .panic .wrongType else
      match w.abs k with | some t => .value t | none => .none := by
  unfold removeById
  split
  · rfl
  · cases hk : w.get k <;> simp [World.abs, hk]

theorem entryOrInsert_abs (w : World) (ty t : Nat) (bv : Bool) :
    (w.entryOrInsert ty t bv).1.abs = if (w.abs ⟨ty, 0⟩).isSome then w.abs else upd w.abs ⟨ty, 0⟩ (some t) := by
  unfold entryOrInsert
  simp only []
  cases hk : w.get ⟨ty, 0⟩ with
  | some c =>
    simp only [World.abs, hk, Option.map_some, Option.isSome_some, if_true]
    rw [(fetchCore_same _ _ _ _ _).abs]
    cases bv <;> rfl
  | none =>
    simp only [World.abs, hk, Option.map_none, Option.isSome_none]
    rw [(fetchCore_same _ _ _ _ _).abs]
    simp only [Bool.false_eq_true, if_false]
    exact abs_setCell w ⟨ty, 0⟩ ⟨ty, t, .free⟩ _ _ _ _ _

theorem entryScoped_fst (w : World) (ty t : Nat) (bv : Bool) :
    SameData (w.entryOrInsert ty t bv).1 (w.entryScoped ty t bv).1 := by
  unfold entryScoped
  generalize w.entryOrInsert ty t bv = r
  obtain ⟨w', o⟩ := r
  cases o <;> first | exact SameData.refl _ | exact release_same _ _

theorem entryScoped_abs (w : World) (ty t : Nat) (bv : Bool) :
    (w.entryScoped ty t bv).1.abs = if (w.abs ⟨ty, 0⟩).isSome then w.abs else upd w.abs ⟨ty, 0⟩ (some t) := by
  rw [(entryScoped_fst w ty t bv).abs, entryOrInsert_abs]

/-- with no live guard (and the invariant) the scoped entry shows the stored value, or the new one -/
theorem entryScoped_out {w : World} (hw : Inv w) (hg : w.guards = []) (ty t : Nat) (bv : Bool) :
    (w.entryScoped ty t bv).2 = .seen ((w.abs ⟨ty, 0⟩).getD t) := by
  rw [inv_of_no_guards hg] at hw
  unfold entryScoped entryOrInsert
  simp only []
  cases hk : w.get ⟨ty, 0⟩ with
  | some c =>
    have hb : tryBorrow c.borrow true = some .excl := by rw [hw _ c hk]; rfl
    cases bv
    · simp only [Bool.false_eq_true, if_false]
      rw [fetchCore_ok _ _ _ _ _ hk hb]
      simp [World.abs, hk]
    · simp only [if_true]
      rw [fetchCore_ok (c := c) _ _ _ _ _ (by exact hk) hb]
      simp [World.abs, hk]
  | none =>
    simp only []
    rw [fetchCore_ok (c := ⟨ty, t, .free⟩) (b' := .excl) _ _ _ _ _ (by simp [get_def]) rfl]
    simp [World.abs, hk]

/-! ## type tags -/

theorem typed_setCell {w : World} (ht : Typed w) {k : ResId} {c : Cell} (hc : c.ty = k.ty)
    (gs : List (Nat × Guard)) (n : Nat) (cr re dr : List Nat) :
    Typed { cells := setCell k c w.cells, guards := gs, nextHandle := n, created := cr, returned := re, dropped := dr } := by
  intro k' c' h
  by_cases hk : k' = k
  · subst hk; simp [get_def] at h; rw [← h]; exact hc
  · simp only [get_def, lookup_setCell_other _ _ hk] at h
    exact ht k' c' h

theorem typed_eraseCell {w : World} (ht : Typed w) (k : ResId)
    (gs : List (Nat × Guard)) (n : Nat) (cr re dr : List Nat) :
    Typed { cells := eraseCell k w.cells, guards := gs, nextHandle := n, created := cr, returned := re, dropped := dr } := by
  intro k' c' h
  by_cases hk : k' = k
  · subst hk; simp [get_def] at h
  · simp only [get_def, lookup_eraseCell_other _ hk] at h
    exact ht k' c' h

theorem insertById_typed {w : World} (ht : Typed w) (a : Nat) (k : ResId) (t : Nat) : Typed (w.insertById a k t).1 := by
  unfold insertById
  split
  · exact ht
  · rename_i h
    exact typed_setCell ht (by simpa using h) _ _ _ _ _

theorem removeById_typed {w : World} (ht : Typed w) (a : Nat) (k : ResId) : Typed (w.removeById a k).1 := by
  unfold removeById
  split
  · exact ht
  · cases hk : w.get k with
    | none => exact ht
    | some c => exact typed_eraseCell ht k _ _ _ _ _

theorem entryOrInsert_typed {w : World} (ht : Typed w) (ty t : Nat) (bv : Bool) : Typed (w.entryOrInsert ty t bv).1 := by
  unfold entryOrInsert
  simp only []
  cases hk : w.get ⟨ty, 0⟩ with
  | some c =>
    simp only []
    apply (fetchCore_same _ _ _ _ _).typed
    cases bv <;> exact ht
  | none =>
    simp only []
    apply (fetchCore_same _ _ _ _ _).typed
    exact typed_setCell ht rfl _ _ _ _ _

theorem entryScoped_typed {w : World} (ht : Typed w) (ty t : Nat) (bv : Bool) : Typed (w.entryScoped ty t bv).1 :=
  (entryScoped_fst w ty t bv).typed (entryOrInsert_typed ht ty t bv)

theorem setup_typed {w : World} (ht : Typed w) (items : List SdItem) (toks : List Nat) :
    Typed (w.setup items toks).1 := by
  induction items generalizing w toks with
  | nil => exact ht
  | cons it rest ih =>
    unfold World.setup
    by_cases hd : (it.dflt && !it.opt) = true
    · rw [if_pos hd]
      cases hk : w.get ⟨it.ty, 0⟩ with
      | some c => exact ih (entryScoped_typed ht _ _ _) _
      | none =>
        cases toks with
        | nil => exact ih ht _
        | cons t toks' => exact ih (entryScoped_typed ht _ _ _) _
    · rw [if_neg hd]; exact ih ht _

/-! ## keys -/

theorem insertById_keys {w : World} (hk : KeysNodup w) (a : Nat) (k : ResId) (t : Nat) : KeysNodup (w.insertById a k t).1 := by
  unfold insertById
  split
  · exact hk
  · exact keys_setCell_nodup hk

theorem removeById_keys {w : World} (hk : KeysNodup w) (a : Nat) (k : ResId) : KeysNodup (w.removeById a k).1 := by
  unfold removeById
  split
  · exact hk
  · cases hg : w.get k with
    | none => exact hk
    | some c => exact keys_eraseCell_nodup hk

theorem entryOrInsert_keys {w : World} (hk : KeysNodup w) (ty t : Nat) (bv : Bool) : KeysNodup (w.entryOrInsert ty t bv).1 := by
  unfold entryOrInsert
  simp only []
  cases hg : w.get ⟨ty, 0⟩ with
  | some c =>
    simp only []
    apply (fetchCore_same _ _ _ _ _).keysNodup
    cases bv <;> exact hk
  | none =>
    simp only []
    apply (fetchCore_same _ _ _ _ _).keysNodup
    exact keys_setCell_nodup hk

theorem entryScoped_keys {w : World} (hk : KeysNodup w) (ty t : Nat) (bv : Bool) : KeysNodup (w.entryScoped ty t bv).1 :=
  (entryScoped_fst w ty t bv).keysNodup (entryOrInsert_keys hk ty t bv)

theorem setup_keys {w : World} (hk : KeysNodup w) (items : List SdItem) (toks : List Nat) :
    KeysNodup (w.setup items toks).1 := by
  induction items generalizing w toks with
  | nil => exact hk
  | cons it rest ih =>
    unfold World.setup
    by_cases hd : (it.dflt && !it.opt) = true
    · rw [if_pos hd]
      cases hg : w.get ⟨it.ty, 0⟩ with
      | some c => exact ih (entryScoped_keys hk _ _ _) _
      | none =>
        cases toks with
        | nil => exact ih hk _
        | cons t toks' => exact ih (entryScoped_keys hk _ _ _) _
    · rw [if_neg hd]; exact ih hk _

/-! ## conservation of values -/

theorem insertById_linear {w : World} (hl : Linear w) (a : Nat) (k : ResId) (t : Nat) : Linear (w.insertById a k t).1 := by
  unfold insertById
  split
  · intro x
    have := hl x
    simp only [World.tokens, List.count_append] at this ⊢
    omega
  · intro x
    have := hl x
    have hc := count_tokens_setCell k ⟨a, t, .free⟩ w.cells x
    simp only [World.tokens, List.count_append, get_def] at this hc ⊢
    omega

theorem removeById_linear {w : World} (hl : Linear w) (hk : KeysNodup w) (a : Nat) (k : ResId) :
    Linear (w.removeById a k).1 := by
  unfold removeById
  split
  · exact hl
  · cases hg : w.get k with
    | none => exact hl
    | some c =>
      intro x
      have := hl x
      have hc := count_tokens_eraseCell hk hg x
      simp only [World.tokens, List.count_append] at this hc ⊢
      omega

theorem entryOrInsert_linear {w : World} (hl : Linear w) (ty t : Nat) (bv : Bool) : Linear (w.entryOrInsert ty t bv).1 := by
  unfold entryOrInsert
  simp only []
  cases hg : w.get ⟨ty, 0⟩ with
  | some c =>
    simp only []
    apply (fetchCore_same _ _ _ _ _).linear
    cases bv
    · exact hl
    · intro x
      have := hl x
      simp only [World.tokens, List.count_append, if_true] at this ⊢
      omega
  | none =>
    simp only []
    apply (fetchCore_same _ _ _ _ _).linear
    intro x
    have := hl x
    have hc := count_tokens_setCell ⟨ty, 0⟩ ⟨ty, t, .free⟩ w.cells x
    rw [← get_def, hg] at hc
    simp only [World.tokens, List.count_append, Option.map_none, Option.toList_none, List.count_nil] at this hc ⊢
    omega

theorem entryScoped_linear {w : World} (hl : Linear w) (ty t : Nat) (bv : Bool) : Linear (w.entryScoped ty t bv).1 :=
  (entryScoped_fst w ty t bv).linear (entryOrInsert_linear hl ty t bv)

theorem setup_linear {w : World} (hl : Linear w) (items : List SdItem) (toks : List Nat) :
    Linear (w.setup items toks).1 := by
  induction items generalizing w toks with
  | nil => exact hl
  | cons it rest ih =>
    unfold World.setup
    by_cases hd : (it.dflt && !it.opt) = true
    · rw [if_pos hd]
      cases hg : w.get ⟨it.ty, 0⟩ with
      | some c => exact ih (entryScoped_linear hl _ _ _) _
      | none =>
        cases toks with
        | nil => exact ih hl _
        | cons t toks' => exact ih (entryScoped_linear hl _ _ _) _
    · rw [if_neg hd]; exact ih hl _

theorem exec_same (w : World) (items : List SdItem) (toks : List Nat) :
    SameData (w.setup items toks).1 (w.exec items toks).1 := by
  have h := sysData_same (w.setup items toks).1 items
  unfold exec
  generalize sysData _ items = r at h
  obtain ⟨w2, o⟩ := r
  cases o <;> first | exact h | exact h.trans (releaseData_same _ _)

/-- a `&self` operation changes no data -/
theorem step_same_of_not_mut (w : World) (op : Op) (h : op.isMut = false) : SameData w (w.step op).1 := by
  cases op with
  | insert _ _ => cases h
  | insertById _ _ _ => cases h
  | remove _ => cases h
  | removeById _ _ => cases h
  | entry _ _ _ => cases h
  | getMut _ => cases h
  | getMutRaw _ => cases h
  | setup _ _ => cases h
  | exec _ _ => cases h
  | hasValue ty => exact SameData.refl w
  | hasValueRaw k => exact SameData.refl w
  | fetch ty => exact fetchCore_same _ _ _ _ _
  | fetchMut ty => exact fetchCore_same _ _ _ _ _
  | tryFetch ty => exact fetchCore_same _ _ _ _ _
  | tryFetchMut ty => exact fetchCore_same _ _ _ _ _
  | tryFetchById a k =>
    show SameData w (w.tryFetchById a k).1
    unfold tryFetchById; split
    · exact SameData.refl w
    · exact fetchCore_same _ _ _ _ _
  | tryFetchMutById a k =>
    show SameData w (w.tryFetchMutById a k).1
    unfold tryFetchMutById; split
    · exact SameData.refl w
    · exact fetchCore_same _ _ _ _ _
  | systemData items => exact sysData_same w items
  | metaNext tys idx x => exact metaNext_same w tys idx x
  | clone h' => exact cloneGuard_same w h'
  | drop h' => exact release_same w h'
  | scope tys takes e => exact scope_same w tys takes e
  | insertFused _ _ _ => cases h
  | entryFault _ _ _ => cases h
  | execFault _ _ => cases h

/-- the three data invariants of C09, together -/
structure MapOk (w : World) : Prop where
  typed : Typed w
  keys : KeysNodup w
  linear : Linear w

theorem SameData.mapOk {w w' : World} (h : SameData w w') (hm : MapOk w) : MapOk w' :=
  ⟨h.typed hm.typed, h.keysNodup hm.keys, h.linear hm.linear⟩

/-- an `entry` call that meets a fault keeps the three invariants: nothing is stored twice, nothing
is lost, a value handed in and not stored is dropped -/
theorem entryFault_mapOk {w : World} (hm : MapOk w) (ty t : Nat) (f : EntryFault) : MapOk (w.entryFault ty t f).1 := by
  have hs : ∀ bv, MapOk (w.entryScoped ty t bv).1 := fun bv =>
    ⟨entryScoped_typed hm.typed _ _ _, entryScoped_keys hm.keys _ _ _, entryScoped_linear hm.linear _ _ _⟩
  cases f with
  | guardHeld bv => rw [entryFault_guardHeld_fst]; exact hs bv
  | valueDrop =>
    unfold entryFault
    cases hk : w.get ⟨ty, 0⟩ with
    | some c =>
      refine ⟨hm.typed, hm.keys, ?_⟩
      intro x
      have := hm.linear x
      simp only [World.tokens, List.count_append] at this ⊢
      omega
    | none => exact hs true
  | closure =>
    unfold entryFault
    cases hk : w.get ⟨ty, 0⟩ with
    | some c => exact hs false
    | none => exact hm

theorem step_mapOk {w : World} (hm : MapOk w) (op : Op) : MapOk (w.step op).1 := by
  cases hmut : op.isMut with
  | false => exact (step_same_of_not_mut w op hmut).mapOk hm
  | true =>
    cases op with
    | insert ty tok => exact ⟨insertById_typed hm.typed _ _ _, insertById_keys hm.keys _ _ _, insertById_linear hm.linear _ _ _⟩
    | insertById a k tok => exact ⟨insertById_typed hm.typed _ _ _, insertById_keys hm.keys _ _ _, insertById_linear hm.linear _ _ _⟩
    | remove ty => exact ⟨removeById_typed hm.typed _ _, removeById_keys hm.keys _ _, removeById_linear hm.linear hm.keys _ _⟩
    | removeById a k => exact ⟨removeById_typed hm.typed _ _, removeById_keys hm.keys _ _, removeById_linear hm.linear hm.keys _ _⟩
    | entry ty tok bv => exact ⟨entryScoped_typed hm.typed _ _ _, entryScoped_keys hm.keys _ _ _, entryScoped_linear hm.linear _ _ _⟩
    | getMut ty => exact hm
    | getMutRaw k => exact hm
    | setup items toks => exact ⟨setup_typed hm.typed _ _, setup_keys hm.keys _ _, setup_linear hm.linear _ _⟩
    | exec items toks =>
      exact (exec_same w items toks).mapOk ⟨setup_typed hm.typed _ _, setup_keys hm.keys _ _, setup_linear hm.linear _ _⟩
    | hasValue _ => cases hmut
    | hasValueRaw _ => cases hmut
    | fetch _ => cases hmut
    | fetchMut _ => cases hmut
    | tryFetch _ => cases hmut
    | tryFetchMut _ => cases hmut
    | tryFetchById _ _ => cases hmut
    | tryFetchMutById _ _ => cases hmut
    | systemData _ => cases hmut
    | metaNext _ _ _ => cases hmut
    | clone _ => cases hmut
    | drop _ => cases hmut
    | scope _ _ _ => cases hmut
    | insertFused a k tok =>
      show MapOk (w.insertFused a k tok).1
      rw [insertFused_fst]
      exact ⟨insertById_typed hm.typed _ _ _, insertById_keys hm.keys _ _ _, insertById_linear hm.linear _ _ _⟩
    | entryFault ty tok f => exact entryFault_mapOk hm ty tok f
    | execFault items toks =>
      show MapOk (w.execFault items toks).1
      rw [execFault_fst]
      exact (exec_same w items toks).mapOk ⟨setup_typed hm.typed _ _, setup_keys hm.keys _ _, setup_linear hm.linear _ _⟩

theorem run_mapOk {w : World} (hm : MapOk w) (ops : List Op) : MapOk (w.run ops) := by
  induction ops generalizing w with
  | nil => exact hm
  | cons op ops ih => exact ih (step_mapOk hm op)

theorem mapOk_empty : MapOk {} :=
  ⟨fun k c h => by simp [World.get, lookupCell] at h, by simp [KeysNodup], fun t => by simp [World.tokens]⟩

end Shred
