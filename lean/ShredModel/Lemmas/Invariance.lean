import ShredModel.Lemmas.Sim
/-!
# C19: the plan does not depend on how resources are labelled, listed or sorted

`ZRel ρ z z'`: same barrier, same shape, same ids / systems / times cell by cell, and the
accumulated read / write sets of `z'` are the `ρ`-images (as *sets*) of those of `z`.
For injective `ρ`, inserting a system whose declaration is the `ρ`-image (again as sets —
so any permutation, duplication or sort order of the lists is covered) chooses the same
target and preserves the relation.
-/
namespace Shred

/-- `l'` is, as a set, the image of `l` under `ρ` -/
def SetImg (ρ : ResId → ResId) (l l' : List ResId) : Prop := ∀ x, x ∈ l' ↔ ∃ y, y ∈ l ∧ ρ y = x

theorem SetImg.append {ρ} {a a' b b' : List ResId} (ha : SetImg ρ a a') (hb : SetImg ρ b b') :
    SetImg ρ (a ++ b) (a' ++ b') := by
  intro x
  simp only [List.mem_append, ha x, hb x]
  constructor
  · rintro (⟨y, hy, rfl⟩ | ⟨y, hy, rfl⟩)
    · exact ⟨y, Or.inl hy, rfl⟩
    · exact ⟨y, Or.inr hy, rfl⟩
  · rintro ⟨y, hy | hy, rfl⟩
    · exact Or.inl ⟨y, hy, rfl⟩
    · exact Or.inr ⟨y, hy, rfl⟩

theorem inter_img {ρ : ResId → ResId} (hinj : ∀ a b, ρ a = ρ b → a = b) {a a' b b' : List ResId}
    (ha : SetImg ρ a a') (hb : SetImg ρ b b') : inter a' b' = inter a b := by
  rw [Bool.eq_iff_iff, inter_iff, inter_iff]
  constructor
  · rintro ⟨x, hxa, hxb⟩
    obtain ⟨y, hy, rfl⟩ := (ha x).mp hxa
    obtain ⟨w, hw, hwy⟩ := (hb _).mp hxb
    exact ⟨y, hy, by rw [← hinj w y hwy]; exact hw⟩
  · rintro ⟨y, hya, hyb⟩
    exact ⟨ρ y, (ha _).mpr ⟨y, hya, rfl⟩, (hb _).mpr ⟨y, hyb, rfl⟩⟩

structure GRel (ρ : ResId → ResId) (g g' : ZGroup) : Prop where
  ids : g'.ids = g.ids
  sys : g'.sys = g.sys
  time : g'.time = g.time
  reads : SetImg ρ g.reads g'.reads
  writes : SetImg ρ g.writes g'.writes

/-- stages related position by position -/
def StRel (ρ : ResId → ResId) (st st' : ZStage) : Prop :=
  st'.length = st.length ∧ ∀ (i : Nat) (g g' : ZGroup), st[i]? = some g → st'[i]? = some g' → GRel ρ g g'

structure ZRel (ρ : ResId → ResId) (z z' : ZB) : Prop where
  barrier : z'.barrier = z.barrier
  len : z'.stages.length = z.stages.length
  stage : ∀ (s : Nat) (st st' : ZStage), z.stages[s]? = some st → z'.stages[s]? = some st' → StRel ρ st st'

section
variable {ρ : ResId → ResId} (hinj : ∀ a b, ρ a = ρ b → a = b)
include hinj

theorem resHit_rel {nr nr' nw nw' : List ResId} {g g' : ZGroup} (hg : GRel ρ g g')
    (hr : SetImg ρ nr nr') (hw : SetImg ρ nw nw') : resHit nr' nw' g' = resHit nr nw g := by
  unfold resHit hit
  rw [inter_img hinj hw (hg.writes.append hg.reads), inter_img hinj hr hg.writes]

theorem strel_get {st st' : ZStage} (h : StRel ρ st st') (i : Nat) (hi : i < st.length) :
    ∃ g g', st[i]? = some g ∧ st'[i]? = some g' ∧ GRel ρ g g' := by
  have hi' : i < st'.length := by rw [h.1]; exact hi
  exact ⟨st[i], st'[i], List.getElem?_eq_getElem hi, List.getElem?_eq_getElem hi',
    h.2 i _ _ (List.getElem?_eq_getElem hi) (List.getElem?_eq_getElem hi')⟩

theorem map_eq_of_strel {β} {st st' : ZStage} (h : StRel ρ st st') (f : ZGroup → β)
    (hf : ∀ g g', GRel ρ g g' → f g' = f g) : st'.map f = st.map f := by
  apply List.ext_getElem?
  intro i
  rw [List.getElem?_map, List.getElem?_map]
  by_cases hi : i < st.length
  · obtain ⟨g, g', h1, h2, hg⟩ := strel_get hinj h i hi
    rw [h1, h2]; simp [hf g g' hg]
  · have h1 := h.1
    rw [List.getElem?_eq_none (by omega), List.getElem?_eq_none (by omega)]

theorem zFindConflict_rel {st st' : ZStage} (h : StRel ρ st st') {nr nr' nw nw' : List ResId}
    (hr : SetImg ρ nr nr') (hw : SetImg ρ nw nw') (dep : List Nat) :
    zFindConflict st' nr' nw' dep = zFindConflict st nr nw dep := by
  have hpt : ∀ i, i < st.length →
      (match st'[i]? with | some g => resHit nr' nw' g || depHit dep g | none => false)
        = (match st[i]? with | some g => resHit nr nw g || depHit dep g | none => false) ∧
      (match st'[i]? with | some g => !resHit nr' nw' g && depHit dep g | none => false)
        = (match st[i]? with | some g => !resHit nr nw g && depHit dep g | none => false) := by
    intro i hi
    obtain ⟨g, g', h1, h2, hg⟩ := strel_get hinj h i hi
    rw [h1, h2]
    simp only [resHit_rel hinj hg hr hw, depHit, hg.ids, and_self]
  have hhits : zHits st' nr' nw' dep = zHits st nr nw dep := by
    unfold zHits
    rw [h.1]
    exact List.filter_congr (fun i hi => (hpt i (List.mem_range.mp hi)).1)
  have hdc : zDepConflict st' nr' nw' dep = zDepConflict st nr nw dep := by
    unfold zDepConflict
    rw [← any_range_eq st', ← any_range_eq st, h.1]
    exact any_congr_mem (fun i hi => (hpt i (List.mem_range.mp hi)).2)
  unfold zFindConflict
  rw [hhits, hdc]

theorem zRemoveIds_rel {st st' : ZStage} (h : StRel ρ st st') (dep : List Nat) :
    zRemoveIds st' dep = zRemoveIds st dep := by
  unfold zRemoveIds
  have : st'.flatMap (·.ids) = st.flatMap (·.ids) := by
    rw [List.flatMap_def, List.flatMap_def, map_eq_of_strel hinj h (·.ids) (fun g g' hg => hg.ids)]
  rw [this]

theorem zJoinOk_rel {st st' : ZStage} (h : StRel ρ st st') (g t : Nat) :
    zJoinOk st' g t = zJoinOk st g t := by
  unfold zJoinOk
  rw [map_eq_of_strel hinj h (·.sys) (fun g g' hg => hg.sys),
    map_eq_of_strel hinj h (·.time) (fun g g' hg => hg.time)]

/-- lists of stages related position by position -/
def StsRel (ρ : ResId → ResId) (sts sts' : List ZStage) : Prop :=
  sts'.length = sts.length ∧ ∀ (i : Nat) (st st' : ZStage), sts[i]? = some st → sts'[i]? = some st' → StRel ρ st st'

theorem zPending_rel {sts sts' : List ZStage} (h : StsRel ρ sts sts') (dep : List Nat) :
    zPending sts' dep = zPending sts dep := by
  induction sts generalizing sts' dep with
  | nil =>
    have : sts' = [] := List.eq_nil_of_length_eq_zero (by simpa using h.1)
    subst this; rfl
  | cons st rest ih =>
    cases sts' with
    | nil => exact absurd h.1 (by simp)
    | cons st' rest' =>
      have hst : StRel ρ st st' := h.2 0 st st' (by simp) (by simp)
      have hrest : StsRel ρ rest rest' :=
        ⟨by have := h.1; simp at this; exact this,
         fun i a a' ha ha' => h.2 (i + 1) a a' (by simpa using ha) (by simpa using ha')⟩
      simp only [zPending, List.foldl]
      rw [zRemoveIds_rel hinj hst]
      exact ih hrest _

theorem zScan_rel {sts sts' : List ZStage} (h : StsRel ρ sts sts') {nr nr' nw nw' : List ResId}
    (hr : SetImg ρ nr nr') (hw : SetImg ρ nw nw') (t i : Nat) (dep : List Nat) :
    zScan zJoinOk nr' nw' t i sts' dep = zScan zJoinOk nr nw t i sts dep := by
  induction sts generalizing sts' dep i with
  | nil =>
    have : sts' = [] := List.eq_nil_of_length_eq_zero (by simpa using h.1)
    subst this; rfl
  | cons st rest ih =>
    cases sts' with
    | nil => exact absurd h.1 (by simp)
    | cons st' rest' =>
      have hst : StRel ρ st st' := h.2 0 st st' (by simp) (by simp)
      have hrest : StsRel ρ rest rest' :=
        ⟨by have := h.1; simp at this; exact this,
         fun i a a' ha ha' => h.2 (i + 1) a a' (by simpa using ha) (by simpa using ha')⟩
      simp only [zScan, zVerdict]
      rw [zFindConflict_rel hinj hst hr hw, zRemoveIds_rel hinj hst]
      cases zFindConflict st nr nw dep with
      | none => rfl
      | single g =>
        simp only []
        rw [zJoinOk_rel hinj hst]
        cases zJoinOk st g t with
        | true => rfl
        | false => exact ih hrest _ _
      | multiple => exact ih hrest _ _

omit hinj in
theorem stsrel_drop {z z' : ZB} (h : ZRel ρ z z') (k : Nat) : StsRel ρ (z.stages.drop k) (z'.stages.drop k) := by
  refine ⟨by simp [h.len], fun i st st' hs hs' => ?_⟩
  rw [List.getElem?_drop] at hs hs'
  exact h.stage _ st st' hs hs'

omit hinj in
theorem stsrel_take {z z' : ZB} (h : ZRel ρ z z') (k : Nat) : StsRel ρ (z.stages.take k) (z'.stages.take k) := by
  refine ⟨by simp [h.len], fun i st st' hs hs' => ?_⟩
  rw [List.getElem?_take] at hs hs'
  split at hs
  · rename_i hik; simp [hik] at hs'
    exact h.stage _ st st' hs hs'
  · cases hs

/-- **same target** -/
theorem target_rel {z z' : ZB} (h : ZRel ρ z z') (dedupN : List Nat → List Nat) (dep : List Nat)
    {nr nr' : List ResId} {d d' : Decl} (hr : SetImg ρ nr nr') (hw : SetImg ρ d.writes d'.writes)
    (ht : d'.time = d.time) :
    z'.target zJoinOk dedupN dep nr' d' = z.target zJoinOk dedupN dep nr d := by
  unfold ZB.target zPrepDep
  rw [h.barrier, ht, zPending_rel hinj (stsrel_take h z.barrier)]
  exact zScan_rel hinj (stsrel_drop h z.barrier) hr hw _ _ _


omit hinj in
theorem grel_newGroup {id sys : Nat} {nr nr' : List ResId} {d d' : Decl} (hr : SetImg ρ nr nr')
    (hw : SetImg ρ d.writes d'.writes) (ht : d'.time = d.time) :
    GRel ρ (newGroup id sys nr d) (newGroup id sys nr' d') :=
  ⟨rfl, rfl, ht, hr, hw⟩

omit hinj in
theorem grel_push {g g' : ZGroup} (hg : GRel ρ g g') {id sys : Nat} {nr nr' : List ResId} {d d' : Decl}
    (hr : SetImg ρ nr nr') (hw : SetImg ρ d.writes d'.writes) (ht : d'.time = d.time) :
    GRel ρ (g.push id sys nr d) (g'.push id sys nr' d') :=
  ⟨by simp [ZGroup.push, hg.ids], by simp [ZGroup.push, hg.sys], by simp [ZGroup.push, hg.time, ht],
   hg.reads.append hr, hg.writes.append hw⟩

omit hinj in
/-- **the relation survives placement at the same target** -/
theorem place_rel {z z' : ZB} (h : ZRel ρ z z') (tg : InsertionTarget) (id sys : Nat)
    {nr nr' : List ResId} {d d' : Decl} (hr : SetImg ρ nr nr') (hw : SetImg ρ d.writes d'.writes)
    (ht : d'.time = d.time) :
    ZRel ρ (z.place tg id sys nr d) (z'.place tg id sys nr' d') := by
  cases tg with
  | newStage =>
    refine ⟨h.barrier, by simp [ZB.place, h.len], fun s st st' hs hs' => ?_⟩
    simp only [ZB.place] at hs hs'
    by_cases hlt : s < z.stages.length
    · rw [List.getElem?_append_left hlt] at hs
      rw [List.getElem?_append_left (by rw [h.len]; exact hlt)] at hs'
      exact h.stage s st st' hs hs'
    · rw [List.getElem?_append_right (by omega)] at hs
      rw [List.getElem?_append_right (by rw [h.len]; omega), h.len] at hs'
      cases hh : s - z.stages.length with
      | zero =>
        simp [hh] at hs hs'; subst hs; subst hs'
        refine ⟨rfl, fun i g g' hg hg' => ?_⟩
        cases i with
        | zero => simp at hg hg'; subst hg; subst hg'; exact grel_newGroup hr hw ht
        | succ i => simp at hg
      | succ n => simp [hh] at hs
  | stage s0 =>
    refine ⟨h.barrier, by simp [ZB.place, h.len], fun s st st' hs hs' => ?_⟩
    simp only [ZB.place] at hs hs'
    by_cases h0 : s0 = s
    · subst h0
      rw [List.getElem?_modify] at hs hs'
      cases ha : z.stages[s0]? with
      | none => simp [ha] at hs
      | some a =>
        cases ha' : z'.stages[s0]? with
        | none => simp [ha'] at hs'
        | some a' =>
          simp [ha] at hs; simp [ha'] at hs'; subst hs; subst hs'
          have hrel := h.stage s0 a a' ha ha'
          refine ⟨by simp [hrel.1], fun i g g' hg hg' => ?_⟩
          by_cases hi : i < a.length
          · rw [List.getElem?_append_left hi] at hg
            rw [List.getElem?_append_left (by rw [hrel.1]; exact hi)] at hg'
            exact hrel.2 i g g' hg hg'
          · rw [List.getElem?_append_right (by omega)] at hg
            rw [List.getElem?_append_right (by rw [hrel.1]; omega), hrel.1] at hg'
            cases hh : i - a.length with
            | zero => simp [hh] at hg hg'; subst hg; subst hg'; exact grel_newGroup hr hw ht
            | succ n => simp [hh] at hg
    · rw [getElem?_modify_ne _ _ _ _ h0] at hs hs'
      exact h.stage s st st' hs hs'
  | group s0 g0 =>
    refine ⟨h.barrier, by simp [ZB.place, h.len], fun s st st' hs hs' => ?_⟩
    simp only [ZB.place] at hs hs'
    by_cases h0 : s0 = s
    · subst h0
      rw [List.getElem?_modify] at hs hs'
      cases ha : z.stages[s0]? with
      | none => simp [ha] at hs
      | some a =>
        cases ha' : z'.stages[s0]? with
        | none => simp [ha'] at hs'
        | some a' =>
          simp [ha] at hs; simp [ha'] at hs'; subst hs; subst hs'
          have hrel := h.stage s0 a a' ha ha'
          refine ⟨by simp [hrel.1], fun i g g' hg hg' => ?_⟩
          by_cases hi : g0 = i
          · subst hi
            rw [List.getElem?_modify] at hg hg'
            cases hb : a[g0]? with
            | none => simp [hb] at hg
            | some bq =>
              cases hb' : a'[g0]? with
              | none => simp [hb'] at hg'
              | some bq' =>
                simp [hb] at hg; simp [hb'] at hg'; subst hg; subst hg'
                exact grel_push (hrel.2 g0 bq bq' hb hb') hr hw ht
          · rw [getElem?_modify_ne _ _ _ _ hi] at hg hg'
            exact hrel.2 i g g' hg hg'
    · rw [getElem?_modify_ne _ _ _ _ h0] at hs hs'
      exact h.stage s st st' hs hs'

/-- **C19, plan level.** Registering a system whose declaration is relabelled by an injective `ρ`
— with its lists permuted, duplicated or normalised by *any* membership-preserving functions —
into a builder that is the `ρ`-image of another chooses the same place and keeps the relation.
Ids, executed systems and running times of the two builders therefore coincide forever. -/
theorem insert_rel {z z' : ZB} (h : ZRel ρ z z') (norm norm' : List ResId → List ResId)
    (hnorm : ∀ l x, x ∈ norm l ↔ x ∈ l) (hnorm' : ∀ l x, x ∈ norm' l ↔ x ∈ l)
    (dedupN : List Nat → List Nat) (dep : List Nat) (id sys : Nat) {d d' : Decl}
    (hr : SetImg ρ d.reads d'.reads) (hw : SetImg ρ d.writes d'.writes) (ht : d'.time = d.time) :
    ZRel ρ (z.insert zJoinOk norm dedupN dep id sys d) (z'.insert zJoinOk norm' dedupN dep id sys d') := by
  have hr' : SetImg ρ (norm d.reads) (norm' d'.reads) := by
    intro x
    rw [hnorm', hr x]
    constructor
    · rintro ⟨y, hy, rfl⟩; exact ⟨y, (hnorm _ _).mpr hy, rfl⟩
    · rintro ⟨y, hy, rfl⟩; exact ⟨y, (hnorm _ _).mp hy, rfl⟩
  unfold ZB.insert
  rw [target_rel hinj h dedupN dep hr' hw ht]
  exact place_rel h _ id sys hr' hw ht

end

theorem zrel_init (ρ : ResId → ResId) : ZRel ρ {} {} :=
  ⟨rfl, rfl, fun s st st' hs => by simp at hs⟩

#print axioms insert_rel
end Shred
