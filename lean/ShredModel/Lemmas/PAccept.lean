import ShredModel.Model.PTask
import ShredModel.Lemmas.Exec
/-!
# The panic-aware acceptor: what every accepted log satisfies (C14)

`PR.steps r l` runs the derivative over a log. The decomposition lemmas say how a run of a
`seq` / `par` / `scope` residual splits into runs of its parts; the C14 statements follow by
structural induction. Everything here is about the functions the driver executes
(`PR.deriv`, `PR.status`, `PR.finalOk`, `PR.hasPanic`).
-/
namespace Shred
variable {ι : Type} [DecidableEq ι]

namespace PR

def steps : PR ι → List (PEv ι) → Option (PR ι)
  | r, [] => some r
  | r, e :: l => match r.deriv e with
    | some r' => steps r' l
    | none => none

/-- the instances that still occur in a residual -/
def insts : PR ι → List ι
  | .nil => []
  | .fin => []
  | .dead => []
  | .leaf s => [s]
  | .closing s => [s]
  | .seq a b => insts a ++ insts b
  | .par a b => insts a ++ insts b
  | .scope s body => s :: insts body
  | .scopeOpen s body => s :: insts body

theorem steps_append (r : PR ι) (l1 l2 : List (PEv ι)) :
    steps r (l1 ++ l2) = (steps r l1).bind fun r' => steps r' l2 := by
  induction l1 generalizing r with
  | nil => rfl
  | cons e l1 ih =>
    simp only [List.cons_append, steps]
    cases r.deriv e with
    | none => rfl
    | some r' => exact ih r'

theorem run_eq (r : PR ι) (l : List (PEv ι)) :
    run r l = (steps r l).bind fun r' => if finalOk r' false then some (hasPanic r') else none := by
  induction l generalizing r with
  | nil => rfl
  | cons e l ih =>
    simp only [run, steps]
    cases r.deriv e with
    | none => rfl
    | some r' => exact ih r'

/-! ### status facts -/

theorem deriv_none_of_ok : ∀ (r : PR ι) (e : PEv ι), status r = .ok → deriv r e = none
  | .nil, _, _ => rfl
  | .fin, _, _ => rfl
  | .dead, _, h => by simp [status] at h
  | .leaf _, _, h => by simp [status] at h
  | .closing _, _, h => by simp [status] at h
  | .scope _ _, _, h => by simp [status] at h
  | .scopeOpen _ _, _, h => by simp [status] at h
  | .seq a b, e, h => by
    simp only [status] at h
    cases ha : status a with
    | panicked => simp [ha] at h
    | running => simp [ha] at h
    | ok =>
      simp only [ha] at h
      simp only [deriv, ha, deriv_none_of_ok b e h, Option.map_none]
  | .par a b, e, h => by
    simp only [status] at h
    cases ha : status a <;> cases hb : status b <;> simp [ha, hb] at h
    simp only [deriv, deriv_none_of_ok a e ha, deriv_none_of_ok b e hb, Option.map_none]

theorem deriv_none_of_panicked : ∀ (r : PR ι) (e : PEv ι), status r = .panicked → deriv r e = none
  | .nil, _, h => by simp [status] at h
  | .fin, _, h => by simp [status] at h
  | .dead, _, _ => rfl
  | .leaf _, _, h => by simp [status] at h
  | .closing _, _, h => by simp [status] at h
  | .scope _ _, _, h => by simp [status] at h
  | .scopeOpen _ _, _, h => by simp [status] at h
  | .seq a b, e, h => by
    simp only [status] at h
    cases ha : status a with
    | panicked => simp only [deriv, ha]
    | running => simp [ha] at h
    | ok =>
      simp only [ha] at h
      simp only [deriv, ha, deriv_none_of_panicked b e h, Option.map_none]
  | .par a b, e, h => by
    simp only [status] at h
    cases ha : status a <;> cases hb : status b <;> simp [ha, hb] at h
    · simp only [deriv, deriv_none_of_ok a e ha, deriv_none_of_panicked b e hb, Option.map_none]
    · simp only [deriv, deriv_none_of_panicked a e ha, deriv_none_of_ok b e hb, Option.map_none]
    · simp only [deriv, deriv_none_of_panicked a e ha, deriv_none_of_panicked b e hb, Option.map_none]

/-- a finished part takes no further step -/
theorem steps_of_done {r : PR ι} (h : status r ≠ .running) {l : List (PEv ι)} {r' : PR ι}
    (hs : steps r l = some r') : l = [] ∧ r' = r := by
  cases l with
  | nil => simp [steps] at hs; exact ⟨rfl, hs.symm⟩
  | cons e l =>
    exfalso
    simp only [steps] at hs
    cases hst : status r with
    | running => exact h hst
    | ok => rw [deriv_none_of_ok r e hst] at hs; cases hs
    | panicked => rw [deriv_none_of_panicked r e hst] at hs; cases hs

theorem not_hasPanic_of_ok : ∀ (r : PR ι), status r = .ok → hasPanic r = false
  | .nil, _ => rfl
  | .fin, _ => rfl
  | .dead, h => by simp [status] at h
  | .leaf _, _ => rfl
  | .closing _, _ => rfl
  | .scope _ _, h => by simp [status] at h
  | .scopeOpen _ _, h => by simp [status] at h
  | .seq a b, h => by
    simp only [status] at h
    cases ha : status a with
    | panicked => simp [ha] at h
    | running => simp [ha] at h
    | ok =>
      simp only [ha] at h
      simp [hasPanic, not_hasPanic_of_ok a ha, not_hasPanic_of_ok b h]
  | .par a b, h => by
    simp only [status] at h
    cases ha : status a <;> cases hb : status b <;> simp [ha, hb] at h
    simp [hasPanic, not_hasPanic_of_ok a ha, not_hasPanic_of_ok b hb]

theorem quiescent_of_ok : ∀ (r : PR ι), status r = .ok → quiescent r = true
  | .nil, _ => rfl
  | .fin, _ => rfl
  | .dead, _ => rfl
  | .leaf _, _ => rfl
  | .closing _, h => by simp [status] at h
  | .scope _ _, _ => rfl
  | .scopeOpen _ _, h => by simp [status] at h
  | .seq a b, h => by
    simp only [status] at h
    cases ha : status a with
    | panicked => simp [ha] at h
    | running => simp [ha] at h
    | ok =>
      simp only [ha] at h
      simp [quiescent, quiescent_of_ok a ha, quiescent_of_ok b h]
  | .par a b, h => by
    simp only [status] at h
    cases ha : status a <;> cases hb : status b <;> simp [ha, hb] at h
    simp [quiescent, quiescent_of_ok a ha, quiescent_of_ok b hb]

/-- a finished part may always stop -/
theorem finalOk_of_done : ∀ (r : PR ι) (ab : Bool), status r ≠ .running → finalOk r ab = true
  | .nil, _, _ => rfl
  | .fin, _, _ => rfl
  | .dead, _, _ => rfl
  | .leaf _, _, h => by simp [status] at h
  | .closing _, _, h => by simp [status] at h
  | .scope _ _, _, h => by simp [status] at h
  | .scopeOpen _ _, _, h => by simp [status] at h
  | .seq a b, ab, h => by
    simp only [status] at h
    cases ha : status a with
    | running => simp [ha] at h
    | panicked => simp [finalOk, ha]
    | ok =>
      simp only [ha] at h
      simp [finalOk, ha, finalOk_of_done b ab h]
  | .par a b, ab, h => by
    simp only [status] at h
    cases ha : status a <;> cases hb : status b <;> simp [ha, hb] at h <;>
      simp [finalOk, finalOk_of_done a _ (by simp [ha]), finalOk_of_done b _ (by simp [hb])]

/-- when no system is inside its window, the execution may stop if abandoning is allowed -/
theorem finalOk_of_quiescent : ∀ (r : PR ι), quiescent r = true → finalOk r true = true
  | .nil, _ => rfl
  | .fin, _ => rfl
  | .dead, _ => rfl
  | .leaf _, _ => rfl
  | .closing _, h => by simp [quiescent] at h
  | .scope _ _, _ => rfl
  | .scopeOpen _ _, h => by simp [quiescent] at h
  | .seq a b, h => by
    simp only [quiescent, Bool.and_eq_true] at h
    simp only [finalOk]
    cases hs : status a with
    | panicked => rfl
    | ok => exact finalOk_of_quiescent b h.2
    | running => exact finalOk_of_quiescent a h.1
  | .par a b, h => by
    simp only [quiescent, Bool.and_eq_true] at h
    simp [finalOk, finalOk_of_quiescent a h.1, finalOk_of_quiescent b h.2]

theorem finalOk_mono : ∀ (r : PR ι) (ab : Bool), finalOk r ab = true → finalOk r true = true
  | .nil, _, _ => rfl
  | .fin, _, _ => rfl
  | .dead, _, _ => rfl
  | .leaf _, _, _ => rfl
  | .closing _, _, h => by simp [finalOk] at h
  | .scope _ _, _, _ => rfl
  | .scopeOpen _ _, _, h => by simp [finalOk] at h
  | .seq a b, ab, h => by
    simp only [finalOk] at *
    cases hs : status a with
    | panicked => rfl
    | ok => simp only [hs] at h ⊢; exact finalOk_mono b ab h
    | running => simp only [hs] at h ⊢; exact finalOk_mono a ab h
  | .par a b, ab, h => by
    simp only [finalOk, Bool.and_eq_true] at *
    exact ⟨by simpa using finalOk_mono a _ h.1, by simpa using finalOk_mono b _ h.2⟩

/-! ### how a run of a composite residual splits -/

theorem steps_fin {l : List (PEv ι)} {r' : PR ι} (h : steps (.fin : PR ι) l = some r') : l = [] ∧ r' = .fin :=
  steps_of_done (by simp [status]) h

theorem steps_dead {l : List (PEv ι)} {r' : PR ι} (h : steps (.dead : PR ι) l = some r') : l = [] ∧ r' = .dead :=
  steps_of_done (by simp [status]) h

theorem steps_closing {s : ι} {l : List (PEv ι)} {r' : PR ι} (h : steps (.closing s) l = some r') :
    (l = [] ∧ r' = .closing s) ∨ (l = [.D s] ∧ r' = .fin) ∨ (l = [.P s] ∧ r' = .dead) := by
  cases l with
  | nil => simp [steps] at h; exact Or.inl ⟨rfl, h.symm⟩
  | cons e l =>
    simp only [steps, deriv] at h
    by_cases h1 : e = .D s
    · subst h1
      simp only [↓reduceIte] at h
      obtain ⟨hl, hr⟩ := steps_fin h
      subst hl; exact Or.inr (Or.inl ⟨rfl, hr⟩)
    · by_cases h2 : e = .P s
      · subst h2
        simp only [reduceCtorEq, ↓reduceIte] at h
        obtain ⟨hl, hr⟩ := steps_dead h
        subst hl; exact Or.inr (Or.inr ⟨rfl, hr⟩)
      · simp [h1, h2] at h

theorem steps_leaf {s : ι} {l : List (PEv ι)} {r' : PR ι} (h : steps (.leaf s) l = some r') :
    (l = [] ∧ r' = .leaf s) ∨ (l = [.F s] ∧ r' = .closing s) ∨
    (l = [.F s, .D s] ∧ r' = .fin) ∨ (l = [.F s, .P s] ∧ r' = .dead) := by
  cases l with
  | nil => simp [steps] at h; exact Or.inl ⟨rfl, h.symm⟩
  | cons e l =>
    simp only [steps, deriv] at h
    by_cases h1 : e = .F s
    · subst h1
      simp only [↓reduceIte] at h
      rcases steps_closing h with ⟨hl, hr⟩ | ⟨hl, hr⟩ | ⟨hl, hr⟩
      · subst hl; exact Or.inr (Or.inl ⟨rfl, hr⟩)
      · subst hl; exact Or.inr (Or.inr (Or.inl ⟨rfl, hr⟩))
      · subst hl; exact Or.inr (Or.inr (Or.inr ⟨rfl, hr⟩))
    · simp [h1] at h

/-- a run of `seq a b` is a run of `a` followed by a run of `b`, and `b` is touched only once
`a` has finished without panic -/
theorem steps_seq {a b : PR ι} {l : List (PEv ι)} {r' : PR ι} (h : steps (.seq a b) l = some r') :
    ∃ la lb a' b', l = la ++ lb ∧ steps a la = some a' ∧ steps b lb = some b' ∧ r' = .seq a' b' ∧
      (lb = [] ∨ status a' = .ok) := by
  induction l generalizing a b with
  | nil =>
    simp [steps] at h
    exact ⟨[], [], a, b, rfl, rfl, rfl, h.symm, Or.inl rfl⟩
  | cons e l ih =>
    simp only [steps, deriv] at h
    cases hs : status a with
    | panicked => simp [hs] at h
    | ok =>
      simp only [hs] at h
      cases hb : deriv b e with
      | none => simp [hb] at h
      | some b1 =>
        simp only [hb, Option.map_some] at h
        obtain ⟨la, lb, a', b', hl, ha, hb', hr, _⟩ := ih h
        obtain ⟨hla, ha'⟩ := steps_of_done (by simp [hs]) ha
        subst hla
        refine ⟨[], e :: lb, a', b', by simp [hl], ha, ?_, hr, Or.inr (by rw [ha']; exact hs)⟩
        simp [steps, hb, hb']
    | running =>
      simp only [hs] at h
      cases ha : deriv a e with
      | none => simp [ha] at h
      | some a1 =>
        simp only [ha, Option.map_some] at h
        obtain ⟨la, lb, a', b', hl, ha', hb', hr, hc⟩ := ih h
        refine ⟨e :: la, lb, a', b', by simp [hl], ?_, hb', hr, hc⟩
        simp [steps, ha, ha']

/-- a run of `par a b` is an interleaving of a run of `a` and a run of `b` -/
theorem steps_par {a b : PR ι} {l : List (PEv ι)} {r' : PR ι} (h : steps (.par a b) l = some r') :
    ∃ la lb a' b', Shuffle la lb l ∧ steps a la = some a' ∧ steps b lb = some b' ∧ r' = .par a' b' := by
  induction l generalizing a b with
  | nil =>
    simp [steps] at h
    exact ⟨[], [], a, b, .nil, rfl, rfl, h.symm⟩
  | cons e l ih =>
    simp only [steps, deriv] at h
    cases ha : deriv a e with
    | some a1 =>
      simp only [ha] at h
      obtain ⟨la, lb, a', b', hsh, ha', hb', hr⟩ := ih h
      exact ⟨e :: la, lb, a', b', .left hsh, by simp [steps, ha, ha'], hb', hr⟩
    | none =>
      simp only [ha] at h
      cases hb : deriv b e with
      | none => simp [hb] at h
      | some b1 =>
        simp only [hb, Option.map_some] at h
        obtain ⟨la, lb, a', b', hsh, ha', hb', hr⟩ := ih h
        exact ⟨la, e :: lb, a', b', .right hsh, ha', by simp [steps, hb, hb'], hr⟩

/-- a run of an opened batch: a run of its body, possibly followed by the batch's own end -/
theorem steps_scopeOpen {s : ι} {body : PR ι} {l : List (PEv ι)} {r' : PR ι}
    (h : steps (.scopeOpen s body) l = some r') :
    ∃ lb b', steps body lb = some b' ∧
      ((l = lb ∧ r' = .scopeOpen s b') ∨
       (l = lb ++ [.D s] ∧ status b' = .ok ∧ r' = .fin) ∨
       (l = lb ++ [.P s] ∧ (status b' = .panicked ∨ quiescent b' = true) ∧ r' = .dead)) := by
  induction l generalizing body with
  | nil =>
    simp [steps] at h
    exact ⟨[], body, rfl, Or.inl ⟨rfl, h.symm⟩⟩
  | cons e l ih =>
    simp only [steps, deriv] at h
    cases hb : deriv body e with
    | some b1 =>
      simp only [hb] at h
      obtain ⟨lb, b', hb', hcases⟩ := ih h
      refine ⟨e :: lb, b', by simp [steps, hb, hb'], ?_⟩
      rcases hcases with ⟨hl, hr⟩ | ⟨hl, hst, hr⟩ | ⟨hl, hst, hr⟩
      · exact Or.inl ⟨by simp [hl], hr⟩
      · exact Or.inr (Or.inl ⟨by simp [hl], hst, hr⟩)
      · exact Or.inr (Or.inr ⟨by simp [hl], hst, hr⟩)
    | none =>
      simp only [hb] at h
      by_cases hD : e = .D s
      · subst hD
        cases hst : status body with
        | ok =>
          simp only [hst, ↓reduceIte] at h
          obtain ⟨hl, hr⟩ := steps_fin h
          subst hl
          exact ⟨[], body, rfl, Or.inr (Or.inl ⟨rfl, hst, hr⟩)⟩
        | panicked => simp [hst] at h
        | running => simp [hst] at h
      · by_cases hP : e = .P s
        · subst hP
          cases hst : status body with
          | ok =>
            simp only [hst, reduceCtorEq, ↓reduceIte] at h
            obtain ⟨hl, hr⟩ := steps_dead h
            subst hl
            exact ⟨[], body, rfl, Or.inr (Or.inr ⟨rfl, Or.inr (quiescent_of_ok body hst), hr⟩)⟩
          | panicked =>
            simp only [hst, ↓reduceIte] at h
            obtain ⟨hl, hr⟩ := steps_dead h
            subst hl
            exact ⟨[], body, rfl, Or.inr (Or.inr ⟨rfl, Or.inl hst, hr⟩)⟩
          | running =>
            simp only [hst, decide_true, Bool.true_and] at h
            by_cases hq : quiescent body = true
            · simp only [hq, ↓reduceIte] at h
              obtain ⟨hl, hr⟩ := steps_dead h
              subst hl
              exact ⟨[], body, rfl, Or.inr (Or.inr ⟨rfl, Or.inr hq, hr⟩)⟩
            · simp [hq] at h
        · cases hst : status body <;> simp [hst, hD, hP] at h

theorem steps_scope {s : ι} {body : PR ι} {l : List (PEv ι)} {r' : PR ι} (h : steps (.scope s body) l = some r') :
    (l = [] ∧ r' = .scope s body) ∨ ∃ l', l = .F s :: l' ∧ steps (.scopeOpen s body) l' = some r' := by
  cases l with
  | nil => simp [steps] at h; exact Or.inl ⟨rfl, h.symm⟩
  | cons e l =>
    simp only [steps, deriv] at h
    by_cases h1 : e = .F s
    · subst h1
      simp only [↓reduceIte] at h
      exact Or.inr ⟨l, rfl, h⟩
    · simp [h1] at h

/-! ### events belong to instances of the residual -/

theorem shuffle_mem {α} {a b l : List α} (h : Shuffle a b l) (e : α) : e ∈ l ↔ e ∈ a ∨ e ∈ b := by
  induction h with
  | nil => simp
  | left _ ih => simp [ih, or_assoc]
  | right _ ih => simp [ih]; constructor <;> (rintro (h | h | h) <;> simp [h])

theorem steps_ev_sys : ∀ (r : PR ι) {l : List (PEv ι)} {r' : PR ι}, steps r l = some r' →
    ∀ e, e ∈ l → e.sys ∈ insts r
  | .nil, l, r', h, e, he => by
    obtain ⟨hl, _⟩ := steps_of_done (r := (.nil : PR ι)) (by simp [status]) h; subst hl; cases he
  | .fin, l, r', h, e, he => by obtain ⟨hl, _⟩ := steps_fin h; subst hl; cases he
  | .dead, l, r', h, e, he => by obtain ⟨hl, _⟩ := steps_dead h; subst hl; cases he
  | .leaf s, l, r', h, e, he => by
    rcases steps_leaf h with ⟨hl, _⟩ | ⟨hl, _⟩ | ⟨hl, _⟩ | ⟨hl, _⟩ <;> subst hl <;>
      simp at he <;> (try rcases he with rfl | rfl) <;> (try subst he) <;> simp [PEv.sys, insts]
  | .closing s, l, r', h, e, he => by
    rcases steps_closing h with ⟨hl, _⟩ | ⟨hl, _⟩ | ⟨hl, _⟩ <;> subst hl <;>
      simp at he <;> (try subst he) <;> simp [PEv.sys, insts]
  | .seq a b, l, r', h, e, he => by
    obtain ⟨la, lb, a', b', hl, ha, hb, _, _⟩ := steps_seq h
    subst hl
    simp only [insts, List.mem_append] at *
    rcases he with he | he
    · exact Or.inl (steps_ev_sys a ha e he)
    · exact Or.inr (steps_ev_sys b hb e he)
  | .par a b, l, r', h, e, he => by
    obtain ⟨la, lb, a', b', hsh, ha, hb, _⟩ := steps_par h
    simp only [insts, List.mem_append]
    rcases (shuffle_mem hsh e).mp he with he | he
    · exact Or.inl (steps_ev_sys a ha e he)
    · exact Or.inr (steps_ev_sys b hb e he)
  | .scopeOpen s body, l, r', h, e, he => by
    obtain ⟨lb, b', hb, hc⟩ := steps_scopeOpen h
    simp only [insts, List.mem_cons]
    rcases hc with ⟨hl, _⟩ | ⟨hl, _, _⟩ | ⟨hl, _, _⟩ <;> subst hl
    · exact Or.inr (steps_ev_sys body hb e he)
    · rcases List.mem_append.mp he with he | he
      · exact Or.inr (steps_ev_sys body hb e he)
      · simp at he; subst he; exact Or.inl rfl
    · rcases List.mem_append.mp he with he | he
      · exact Or.inr (steps_ev_sys body hb e he)
      · simp at he; subst he; exact Or.inl rfl
  | .scope s body, l, r', h, e, he => by
    rcases steps_scope h with ⟨hl, _⟩ | ⟨l', hl, h'⟩
    · subst hl; cases he
    · subst hl
      simp only [insts, List.mem_cons]
      rcases List.mem_cons.mp he with rfl | he
      · exact Or.inl rfl
      · obtain ⟨lb, b', hb, hc⟩ := steps_scopeOpen h'
        rcases hc with ⟨hl, _⟩ | ⟨hl, _, _⟩ | ⟨hl, _, _⟩ <;> subst hl
        · exact Or.inr (steps_ev_sys body hb e he)
        · rcases List.mem_append.mp he with he | he
          · exact Or.inr (steps_ev_sys body hb e he)
          · simp at he; subst he; exact Or.inl rfl
        · rcases List.mem_append.mp he with he | he
          · exact Or.inr (steps_ev_sys body hb e he)
          · simp at he; subst he; exact Or.inl rfl

/-! ### C14: a panic is reported iff some system was unwound -/

theorem hasPanic_deriv : ∀ (r : PR ι) (e : PEv ι) (r' : PR ι), deriv r e = some r' →
    (hasPanic r' = true ↔ hasPanic r = true ∨ ∃ s, e = .P s)
  | .nil, _, _, h => by simp [deriv] at h
  | .fin, _, _, h => by simp [deriv] at h
  | .dead, _, _, h => by simp [deriv] at h
  | .leaf s, e, r', h => by
    simp only [deriv] at h
    by_cases h1 : e = .F s
    · subst h1; simp at h; subst h; simp [hasPanic]
    · simp [h1] at h
  | .closing s, e, r', h => by
    simp only [deriv] at h
    by_cases h1 : e = .D s
    · subst h1; simp at h; subst h; simp [hasPanic]
    · by_cases h2 : e = .P s
      · subst h2; simp at h; subst h; simp [hasPanic]
      · simp [h1, h2] at h
  | .seq a b, e, r', h => by
    simp only [deriv] at h
    cases hs : status a with
    | panicked => simp [hs] at h
    | ok =>
      simp only [hs] at h
      cases hb : deriv b e with
      | none => simp [hb] at h
      | some b1 =>
        simp only [hb, Option.map_some, Option.some.injEq] at h; subst h
        have := hasPanic_deriv b e b1 hb
        simp only [hasPanic, Bool.or_eq_true, this]
        constructor
        · rintro (h | h | h)
          · exact Or.inl (Or.inl h)
          · exact Or.inl (Or.inr h)
          · exact Or.inr h
        · rintro ((h | h) | h)
          · exact Or.inl h
          · exact Or.inr (Or.inl h)
          · exact Or.inr (Or.inr h)
    | running =>
      simp only [hs] at h
      cases ha : deriv a e with
      | none => simp [ha] at h
      | some a1 =>
        simp only [ha, Option.map_some, Option.some.injEq] at h; subst h
        have := hasPanic_deriv a e a1 ha
        simp only [hasPanic, Bool.or_eq_true, this]
        constructor
        · rintro ((h | h) | h)
          · exact Or.inl (Or.inl h)
          · exact Or.inr h
          · exact Or.inl (Or.inr h)
        · rintro ((h | h) | h)
          · exact Or.inl (Or.inl h)
          · exact Or.inr h
          · exact Or.inl (Or.inr h)
  | .par a b, e, r', h => by
    simp only [deriv] at h
    cases ha : deriv a e with
    | some a1 =>
      simp only [ha, Option.some.injEq] at h; subst h
      have := hasPanic_deriv a e a1 ha
      simp only [hasPanic, Bool.or_eq_true, this]
      constructor
      · rintro ((h | h) | h)
        · exact Or.inl (Or.inl h)
        · exact Or.inr h
        · exact Or.inl (Or.inr h)
      · rintro ((h | h) | h)
        · exact Or.inl (Or.inl h)
        · exact Or.inr h
        · exact Or.inl (Or.inr h)
    | none =>
      simp only [ha] at h
      cases hb : deriv b e with
      | none => simp [hb] at h
      | some b1 =>
        simp only [hb, Option.map_some, Option.some.injEq] at h; subst h
        have := hasPanic_deriv b e b1 hb
        simp only [hasPanic, Bool.or_eq_true, this]
        constructor
        · rintro (h | h | h)
          · exact Or.inl (Or.inl h)
          · exact Or.inl (Or.inr h)
          · exact Or.inr h
        · rintro ((h | h) | h)
          · exact Or.inl h
          · exact Or.inr (Or.inl h)
          · exact Or.inr (Or.inr h)
  | .scope s body, e, r', h => by
    simp only [deriv] at h
    by_cases h1 : e = .F s
    · subst h1; simp at h; subst h; simp [hasPanic]
    · simp [h1] at h
  | .scopeOpen s body, e, r', h => by
    simp only [deriv] at h
    cases hb : deriv body e with
    | some b1 =>
      simp only [hb, Option.some.injEq] at h; subst h
      simpa [hasPanic] using hasPanic_deriv body e b1 hb
    | none =>
      simp only [hb] at h
      by_cases hD : e = .D s
      · subst hD
        cases hst : status body with
        | ok =>
          simp only [hst, ↓reduceIte, Option.some.injEq] at h; subst h
          simp [hasPanic, not_hasPanic_of_ok body hst]
        | panicked => simp [hst] at h
        | running => simp [hst] at h
      · by_cases hP : e = .P s
        · subst hP
          have hr : r' = .dead := by
            cases hst : status body with
            | ok => simp [hst] at h; exact h.symm
            | panicked => simp [hst] at h; exact h.symm
            | running =>
              simp only [hst, decide_true, Bool.true_and] at h
              by_cases hq : quiescent body = true
              · simp [hq] at h; exact h.symm
              · simp [hq] at h
          subst hr
          simp [hasPanic]
        · cases hst : status body <;> simp [hst, hD, hP] at h

theorem hasPanic_steps (r : PR ι) (l : List (PEv ι)) (r' : PR ι) (h : steps r l = some r') :
    hasPanic r' = true ↔ hasPanic r = true ∨ ∃ s, PEv.P s ∈ l := by
  induction l generalizing r with
  | nil => simp [steps] at h; subst h; simp
  | cons e l ih =>
    simp only [steps] at h
    cases hd : deriv r e with
    | none => simp [hd] at h
    | some r1 =>
      simp only [hd] at h
      rw [ih r1 h, hasPanic_deriv r e r1 hd]
      constructor
      · rintro ((h | ⟨s, rfl⟩) | ⟨s, hs⟩)
        · exact Or.inl h
        · exact Or.inr ⟨s, by simp⟩
        · exact Or.inr ⟨s, by simp [hs]⟩
      · rintro (h | ⟨s, hs⟩)
        · exact Or.inl (Or.inl h)
        · rcases List.mem_cons.mp hs with rfl | hs
          · exact Or.inl (Or.inr ⟨s, rfl⟩)
          · exact Or.inr ⟨s, hs⟩

/-! ### C14: every window that was opened is closed when the execution stops -/

theorem closed_of_final : ∀ (r : PR ι) {l : List (PEv ι)} {r' : PR ι} (ab : Bool), steps r l = some r' →
    finalOk r' ab = true → ∀ x, PEv.F x ∈ l → PEv.D x ∈ l ∨ PEv.P x ∈ l
  | .nil, l, r', _, h, _, x, hx => by
    obtain ⟨hl, _⟩ := steps_of_done (r := (.nil : PR ι)) (by simp [status]) h; subst hl; cases hx
  | .fin, l, r', _, h, _, x, hx => by obtain ⟨hl, _⟩ := steps_fin h; subst hl; cases hx
  | .dead, l, r', _, h, _, x, hx => by obtain ⟨hl, _⟩ := steps_dead h; subst hl; cases hx
  | .leaf s, l, r', ab, h, hf, x, hx => by
    rcases steps_leaf h with ⟨hl, _⟩ | ⟨hl, hr⟩ | ⟨hl, _⟩ | ⟨hl, _⟩ <;> subst hl
    · cases hx
    · subst hr; simp [finalOk] at hf
    · simp at hx; subst hx; simp
    · simp at hx; subst hx; simp
  | .closing s, l, r', ab, h, hf, x, hx => by
    rcases steps_closing h with ⟨hl, _⟩ | ⟨hl, _⟩ | ⟨hl, _⟩ <;> subst hl <;> simp at hx
  | .seq a b, l, r', ab, h, hf, x, hx => by
    obtain ⟨la, lb, a', b', hl, ha, hb, hr, hc⟩ := steps_seq h
    subst hl hr
    simp only [finalOk] at hf
    have hfa : finalOk a' ab = true ∧ (lb = [] ∨ finalOk b' ab = true) := by
      cases hs : status a' with
      | panicked =>
        refine ⟨finalOk_of_done a' ab (by simp [hs]), ?_⟩
        rcases hc with hc | hc
        · exact Or.inl hc
        · rw [hs] at hc; cases hc
      | ok => simp only [hs] at hf; exact ⟨finalOk_of_done a' ab (by simp [hs]), Or.inr hf⟩
      | running =>
        simp only [hs] at hf
        refine ⟨hf, ?_⟩
        rcases hc with hc | hc
        · exact Or.inl hc
        · rw [hs] at hc; cases hc
    rcases List.mem_append.mp hx with hx | hx
    · rcases closed_of_final a ab ha hfa.1 x hx with h' | h'
      · exact Or.inl (List.mem_append_left _ h')
      · exact Or.inr (List.mem_append_left _ h')
    · rcases hfa.2 with hlb | hfb
      · subst hlb; cases hx
      · rcases closed_of_final b ab hb hfb x hx with h' | h'
        · exact Or.inl (List.mem_append_right _ h')
        · exact Or.inr (List.mem_append_right _ h')
  | .par a b, l, r', ab, h, hf, x, hx => by
    obtain ⟨la, lb, a', b', hsh, ha, hb, hr⟩ := steps_par h
    subst hr
    simp only [finalOk, Bool.and_eq_true] at hf
    rcases (shuffle_mem hsh _).mp hx with hx | hx
    · rcases closed_of_final a _ ha hf.1 x hx with h' | h'
      · exact Or.inl ((shuffle_mem hsh _).mpr (Or.inl h'))
      · exact Or.inr ((shuffle_mem hsh _).mpr (Or.inl h'))
    · rcases closed_of_final b _ hb hf.2 x hx with h' | h'
      · exact Or.inl ((shuffle_mem hsh _).mpr (Or.inr h'))
      · exact Or.inr ((shuffle_mem hsh _).mpr (Or.inr h'))
  | .scopeOpen s body, l, r', ab, h, hf, x, hx => by
    obtain ⟨lb, b', hb, hc⟩ := steps_scopeOpen h
    rcases hc with ⟨hl, hr⟩ | ⟨hl, hst, hr⟩ | ⟨hl, hst, hr⟩
    · subst hr; simp [finalOk] at hf
    · subst hl
      rcases List.mem_append.mp hx with hx | hx
      · rcases closed_of_final body ab hb (finalOk_of_done b' ab (by simp [hst])) x hx with h' | h'
        · exact Or.inl (List.mem_append_left _ h')
        · exact Or.inr (List.mem_append_left _ h')
      · simp at hx
    · subst hl
      rcases List.mem_append.mp hx with hx | hx
      · have hfb : finalOk b' true = true := by
          rcases hst with hst | hst
          · exact finalOk_of_done b' true (by simp [hst])
          · exact finalOk_of_quiescent b' hst
        rcases closed_of_final body true hb hfb x hx with h' | h'
        · exact Or.inl (List.mem_append_left _ h')
        · exact Or.inr (List.mem_append_left _ h')
      · simp at hx
  | .scope s body, l, r', ab, h, hf, x, hx => by
    rcases steps_scope h with ⟨hl, _⟩ | ⟨l', hl, h'⟩
    · subst hl; cases hx
    · subst hl
      obtain ⟨lb, b', hb, hc⟩ := steps_scopeOpen h'
      rcases hc with ⟨hl, hr⟩ | ⟨hl, hst, hr⟩ | ⟨hl, hst, hr⟩
      · subst hr; simp [finalOk] at hf
      · subst hl
        rcases List.mem_cons.mp hx with hx | hx
        · cases hx; exact Or.inl (by simp)
        · rcases List.mem_append.mp hx with hx | hx
          · rcases closed_of_final body ab hb (finalOk_of_done b' ab (by simp [hst])) x hx with h' | h'
            · exact Or.inl (by simp [h'])
            · exact Or.inr (by simp [h'])
          · simp at hx
      · subst hl
        rcases List.mem_cons.mp hx with hx | hx
        · cases hx; exact Or.inr (by simp)
        · rcases List.mem_append.mp hx with hx | hx
          · have hfb : finalOk b' true = true := by
              rcases hst with hst | hst
              · exact finalOk_of_done b' true (by simp [hst])
              · exact finalOk_of_quiescent b' hst
            rcases closed_of_final body true hb hfb x hx with h' | h'
            · exact Or.inl (by simp [h'])
            · exact Or.inr (by simp [h'])
          · simp at hx

/-! ### C14: no system runs more than once -/

theorem count_F_zero_of_not_inst (r : PR ι) {l : List (PEv ι)} {r' : PR ι} (h : steps r l = some r') (x : ι)
    (hx : x ∉ insts r) : l.count (PEv.F x) = 0 := by
  apply List.count_eq_zero.mpr
  intro hm
  exact hx (by simpa [PEv.sys] using steps_ev_sys r h _ hm)

theorem count_F_le_one : ∀ (r : PR ι) {l : List (PEv ι)} {r' : PR ι}, steps r l = some r' →
    (insts r).Nodup → ∀ x, l.count (PEv.F x) ≤ 1
  | .nil, l, r', h, _, x => by
    obtain ⟨hl, _⟩ := steps_of_done (r := (.nil : PR ι)) (by simp [status]) h; subst hl; simp
  | .fin, l, r', h, _, x => by obtain ⟨hl, _⟩ := steps_fin h; subst hl; simp
  | .dead, l, r', h, _, x => by obtain ⟨hl, _⟩ := steps_dead h; subst hl; simp
  | .leaf s, l, r', h, _, x => by
    rcases steps_leaf h with ⟨hl, _⟩ | ⟨hl, _⟩ | ⟨hl, _⟩ | ⟨hl, _⟩ <;> subst hl <;>
      simp [List.count_cons] <;> split <;> omega
  | .closing s, l, r', h, _, x => by
    rcases steps_closing h with ⟨hl, _⟩ | ⟨hl, _⟩ | ⟨hl, _⟩ <;> subst hl <;> simp [List.count_cons]
  | .seq a b, l, r', h, hnd, x => by
    obtain ⟨la, lb, a', b', hl, ha, hb, _, _⟩ := steps_seq h
    subst hl
    simp only [insts] at hnd
    obtain ⟨hna, hnb, hdis⟩ := List.nodup_append.mp hnd
    rw [List.count_append]
    have h1 := count_F_le_one a ha hna x
    have h2 := count_F_le_one b hb hnb x
    by_cases hxa : x ∈ insts a
    · have : x ∉ insts b := fun hxb => hdis x hxa x hxb rfl
      rw [count_F_zero_of_not_inst b hb x this]; omega
    · rw [count_F_zero_of_not_inst a ha x hxa]; omega
  | .par a b, l, r', h, hnd, x => by
    obtain ⟨la, lb, a', b', hsh, ha, hb, _⟩ := steps_par h
    simp only [insts] at hnd
    obtain ⟨hna, hnb, hdis⟩ := List.nodup_append.mp hnd
    rw [shuffle_count hsh]
    have h1 := count_F_le_one a ha hna x
    have h2 := count_F_le_one b hb hnb x
    by_cases hxa : x ∈ insts a
    · have : x ∉ insts b := fun hxb => hdis x hxa x hxb rfl
      rw [count_F_zero_of_not_inst b hb x this]; omega
    · rw [count_F_zero_of_not_inst a ha x hxa]; omega
  | .scopeOpen s body, l, r', h, hnd, x => by
    obtain ⟨lb, b', hb, hc⟩ := steps_scopeOpen h
    simp only [insts, List.nodup_cons] at hnd
    have h1 := count_F_le_one body hb hnd.2 x
    rcases hc with ⟨hl, _⟩ | ⟨hl, _, _⟩ | ⟨hl, _, _⟩ <;> subst hl
    · exact h1
    · simpa [List.count_append, List.count_cons] using h1
    · simpa [List.count_append, List.count_cons] using h1
  | .scope s body, l, r', h, hnd, x => by
    rcases steps_scope h with ⟨hl, _⟩ | ⟨l', hl, h'⟩
    · subst hl; simp
    · subst hl
      obtain ⟨lb, b', hb, hc⟩ := steps_scopeOpen h'
      simp only [insts, List.nodup_cons] at hnd
      have h1 := count_F_le_one body hb hnd.2 x
      have h0 : x = s → lb.count (PEv.F x) = 0 := fun hxs =>
        count_F_zero_of_not_inst body hb x (by rw [hxs]; exact hnd.1)
      have key : (PEv.F s :: lb).count (PEv.F x) ≤ 1 := by
        simp only [List.count_cons]
        by_cases hxs : x = s
        · rw [h0 hxs]; simp [hxs]
        · have : (PEv.F s == PEv.F x) = false := by simp [Ne.symm hxs]
          simp [this]; exact h1
      rcases hc with ⟨hl, _⟩ | ⟨hl, _, _⟩ | ⟨hl, _, _⟩ <;> subst hl
      · exact key
      · have : (PEv.F s :: (lb ++ [PEv.D s])).count (PEv.F x) = (PEv.F s :: lb).count (PEv.F x) := by
          simp [List.count_cons, List.count_append]
        rw [this]; exact key
      · have : (PEv.F s :: (lb ++ [PEv.P s])).count (PEv.F x) = (PEv.F s :: lb).count (PEv.F x) := by
          simp [List.count_cons, List.count_append]
        rw [this]; exact key

end PR

/-! ### C14: whoever is ordered after an unwound system does not run -/

theorem insts_toPR (t : Task ι) : (t.toPR).insts = t.sys := by
  induction t with
  | nil => rfl
  | leaf s => rfl
  | seq a b iha ihb => simp [Task.toPR, PR.insts, Task.sys, iha, ihb]
  | par a b iha ihb => simp [Task.toPR, PR.insts, Task.sys, iha, ihb]
  | scope s body ih => simp [Task.toPR, PR.insts, Task.sys, ih]

theorem hasPanic_toPR (t : Task ι) : (t.toPR).hasPanic = false := by
  induction t with
  | nil => rfl
  | leaf s => rfl
  | seq a b iha ihb => simp [Task.toPR, PR.hasPanic, iha, ihb]
  | par a b iha ihb => simp [Task.toPR, PR.hasPanic, iha, ihb]
  | scope s body ih => simp [Task.toPR, PR.hasPanic, ih]

open PR in
theorem dependents_dont_start {t : Task ι} {x y : ι} (hb : Before t x y) :
    ∀ {l : List (PEv ι)} {r' : PR ι}, steps t.toPR l = some r' → t.sys.Nodup → PEv.P x ∈ l → PEv.F y ∉ l := by
  induction hb with
  | @here a b x y hx hy =>
    intro l r' h hnd hP hF
    simp only [Task.toPR] at h
    obtain ⟨la, lb, a', b', hl, ha, hb', _, hc⟩ := steps_seq h
    subst hl
    simp only [Task.sys] at hnd
    obtain ⟨_, _, hdis⟩ := List.nodup_append.mp hnd
    have hxb : x ∉ b.sys := fun h' => hdis x hx x h' rfl
    have hya : y ∉ a.sys := fun h' => hdis y h' y hy rfl
    have hPa : PEv.P x ∈ la := by
      rcases List.mem_append.mp hP with h' | h'
      · exact h'
      · exact absurd (by simpa [PEv.sys, insts_toPR] using steps_ev_sys _ hb' _ h') hxb
    have hFb : PEv.F y ∈ lb := by
      rcases List.mem_append.mp hF with h' | h'
      · exact absurd (by simpa [PEv.sys, insts_toPR] using steps_ev_sys _ ha _ h') hya
      · exact h'
    have hpan : hasPanic a' = true := (hasPanic_steps _ _ _ ha).mpr (Or.inr ⟨x, hPa⟩)
    rcases hc with hc | hc
    · subst hc; cases hFb
    · rw [not_hasPanic_of_ok a' hc] at hpan; cases hpan
  | @seqL a b x y hab ih =>
    intro l r' h hnd hP hF
    simp only [Task.toPR] at h
    obtain ⟨la, lb, a', b', hl, ha, hb', _, _⟩ := steps_seq h
    subst hl
    simp only [Task.sys] at hnd
    obtain ⟨hna, _, hdis⟩ := List.nodup_append.mp hnd
    obtain ⟨hx, hy⟩ := before_mem hab
    have hPa : PEv.P x ∈ la := by
      rcases List.mem_append.mp hP with h' | h'
      · exact h'
      · exact absurd (by simpa [PEv.sys, insts_toPR] using steps_ev_sys _ hb' _ h') (fun h'' => hdis x hx x h'' rfl)
    have hFa : PEv.F y ∈ la := by
      rcases List.mem_append.mp hF with h' | h'
      · exact h'
      · exact absurd (by simpa [PEv.sys, insts_toPR] using steps_ev_sys _ hb' _ h') (fun h'' => hdis y hy y h'' rfl)
    exact ih ha hna hPa hFa
  | @seqR a b x y hab ih =>
    intro l r' h hnd hP hF
    simp only [Task.toPR] at h
    obtain ⟨la, lb, a', b', hl, ha, hb', _, _⟩ := steps_seq h
    subst hl
    simp only [Task.sys] at hnd
    obtain ⟨_, hnb, hdis⟩ := List.nodup_append.mp hnd
    obtain ⟨hx, hy⟩ := before_mem hab
    have hPb : PEv.P x ∈ lb := by
      rcases List.mem_append.mp hP with h' | h'
      · exact absurd (by simpa [PEv.sys, insts_toPR] using steps_ev_sys _ ha _ h') (fun h'' => hdis x h'' x hx rfl)
      · exact h'
    have hFb : PEv.F y ∈ lb := by
      rcases List.mem_append.mp hF with h' | h'
      · exact absurd (by simpa [PEv.sys, insts_toPR] using steps_ev_sys _ ha _ h') (fun h'' => hdis y h'' y hy rfl)
      · exact h'
    exact ih hb' hnb hPb hFb
  | @parL a b x y hab ih =>
    intro l r' h hnd hP hF
    simp only [Task.toPR] at h
    obtain ⟨la, lb, a', b', hsh, ha, hb', _⟩ := steps_par h
    simp only [Task.sys] at hnd
    obtain ⟨hna, _, hdis⟩ := List.nodup_append.mp hnd
    obtain ⟨hx, hy⟩ := before_mem hab
    have hPa : PEv.P x ∈ la := by
      rcases (shuffle_mem hsh _).mp hP with h' | h'
      · exact h'
      · exact absurd (by simpa [PEv.sys, insts_toPR] using steps_ev_sys _ hb' _ h') (fun h'' => hdis x hx x h'' rfl)
    have hFa : PEv.F y ∈ la := by
      rcases (shuffle_mem hsh _).mp hF with h' | h'
      · exact h'
      · exact absurd (by simpa [PEv.sys, insts_toPR] using steps_ev_sys _ hb' _ h') (fun h'' => hdis y hy y h'' rfl)
    exact ih ha hna hPa hFa
  | @parR a b x y hab ih =>
    intro l r' h hnd hP hF
    simp only [Task.toPR] at h
    obtain ⟨la, lb, a', b', hsh, ha, hb', _⟩ := steps_par h
    simp only [Task.sys] at hnd
    obtain ⟨_, hnb, hdis⟩ := List.nodup_append.mp hnd
    obtain ⟨hx, hy⟩ := before_mem hab
    have hPb : PEv.P x ∈ lb := by
      rcases (shuffle_mem hsh _).mp hP with h' | h'
      · exact absurd (by simpa [PEv.sys, insts_toPR] using steps_ev_sys _ ha _ h') (fun h'' => hdis x h'' x hx rfl)
      · exact h'
    have hFb : PEv.F y ∈ lb := by
      rcases (shuffle_mem hsh _).mp hF with h' | h'
      · exact absurd (by simpa [PEv.sys, insts_toPR] using steps_ev_sys _ ha _ h') (fun h'' => hdis y h'' y hy rfl)
      · exact h'
    exact ih hb' hnb hPb hFb
  | @scope s body x y hab ih =>
    intro l r' h hnd hP hF
    simp only [Task.toPR] at h
    simp only [Task.sys, List.nodup_cons] at hnd
    obtain ⟨hx, hy⟩ := before_mem hab
    have hxs : x ≠ s := fun e => hnd.1 (e ▸ hx)
    have hys : y ≠ s := fun e => hnd.1 (e ▸ hy)
    rcases steps_scope h with ⟨hl, _⟩ | ⟨l', hl, h'⟩
    · subst hl; cases hP
    · subst hl
      obtain ⟨lb, b', hb', hc⟩ := steps_scopeOpen h'
      have hP' : PEv.P x ∈ l' := by
        rcases List.mem_cons.mp hP with h'' | h''
        · cases h''
        · exact h''
      have hF' : PEv.F y ∈ l' := by
        rcases List.mem_cons.mp hF with h'' | h''
        · cases h''; exact absurd rfl hys
        · exact h''
      have hPb : PEv.P x ∈ lb := by
        rcases hc with ⟨hl, _⟩ | ⟨hl, _, _⟩ | ⟨hl, _, _⟩ <;> subst hl
        · exact hP'
        · rcases List.mem_append.mp hP' with h'' | h''
          · exact h''
          · simp at h''
        · rcases List.mem_append.mp hP' with h'' | h''
          · exact h''
          · simp at h''; exact absurd h'' hxs
      have hFb : PEv.F y ∈ lb := by
        rcases hc with ⟨hl, _⟩ | ⟨hl, _, _⟩ | ⟨hl, _, _⟩ <;> subst hl
        · exact hF'
        · rcases List.mem_append.mp hF' with h'' | h''
          · exact h''
          · simp at h''
        · rcases List.mem_append.mp hF' with h'' | h''
          · exact h''
          · simp at h''
      exact ih hb' hnd.2 hPb hFb

end Shred
