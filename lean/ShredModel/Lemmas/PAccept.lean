import ShredModel.Model.PTask
import ShredModel.Lemmas.Exec
/-!
# The panic-aware acceptor: what every accepted log satisfies (C14)

`PR.steps r l` runs the derivative over a log. The decomposition lemmas say how a run of a
`seq` / `par` / `scope` residual splits into runs of its parts; the C14 statements follow by
structural induction. Everything here is about the functions the driver executes
(`PR.deriv`, `PR.status`, `PR.finalOk`, `PR.hasPanic`).
-/
namespace Shred
variable {ι : Type} [DecidableEq ι]

namespace PR

def steps : PR ι → List (PEv ι) → Option (PR ι)
  | r, [] => some r
  | r, e :: l => match r.deriv e with
    | some r' => steps r' l
    | none => none

/-- the instances that still occur in a residual -/
def insts : PR ι → List ι
  | .nil => []
  | .fin => []
  | .dead => []
  | .leaf s => [s]
  | .closing s => [s]
  | .seq a b => insts a ++ insts b
  | .par a b => insts a ++ insts b
  | .scope s body => s :: insts body
  | .scopeOpen s body => s :: insts body

theorem steps_append (r : PR ι) (l1 l2 : List (PEv ι)) :
    steps r (l1 ++ l2) = (steps r l1).bind fun r' => steps r' l2 := by
  induction l1 generalizing r with
  | nil => rfl
  | cons e l1 ih =>
    simp only [List.cons_append, steps]
    cases r.deriv e with
    | none => rfl
    | some r' => exact ih r'

theorem run_eq (r : PR ι) (l : List (PEv ι)) :
    run r l = (steps r l).bind fun r' => if finalOk r' false then some (hasPanic r') else none := by
  induction l generalizing r with
  | nil => rfl
  | cons e l ih =>
    simp only [run, steps]
    cases r.deriv e with
    | none => rfl
    | some r' => exact ih r'

/-! ### status facts -/

theorem deriv_none_of_ok : ∀ (r : PR ι) (e : PEv ι), status r = .ok → deriv r e = none
  | .nil, _, _ => rfl
  | .fin, _, _ => rfl
  | .dead, _, h => by simp [status] at h
  | .leaf _, _, h => by simp [status] at h
  | .closing _, _, h => by simp [status] at h
  | .scope _ _, _, h => by simp [status] at h
  | .scopeOpen _ _, _, h => by simp [status] at h
  | .seq a b, e, h => by
    simp only [status] at h
    cases ha : status a with
    | panicked => simp [ha] at h
    | running => simp [ha] at h
    | ok =>
      simp only [ha] at h
      simp only [deriv, ha, deriv_none_of_ok b e h, Option.map_none]
  | .par a b, e, h => by
    simp only [status] at h
    cases ha : status a <;> cases hb : status b <;> simp [ha, hb] at h
    simp only [deriv, deriv_none_of_ok a e ha, deriv_none_of_ok b e hb, Option.map_none]

theorem deriv_none_of_panicked : ∀ (r : PR ι) (e : PEv ι), status r = .panicked → deriv r e = none
  | .nil, _, h => by simp [status] at h
  | .fin, _, h => by simp [status] at h
  | .dead, _, _ => rfl
  | .leaf _, _, h => by simp [status] at h
  | .closing _, _, h => by simp [status] at h
  | .scope _ _, _, h => by simp [status] at h
  | .scopeOpen _ _, _, h => by simp [status] at h
  | .seq a b, e, h => by
    simp only [status] at h
    cases ha : status a with
    | panicked => simp only [deriv, ha]
    | running => simp [ha] at h
    | ok =>
      simp only [ha] at h
      simp only [deriv, ha, deriv_none_of_panicked b e h, Option.map_none]
  | .par a b, e, h => by
    simp only [status] at h
    cases ha : status a <;> cases hb : status b <;> simp [ha, hb] at h
    · simp only [deriv, deriv_none_of_ok a e ha, deriv_none_of_panicked b e hb, Option.map_none]
    · simp only [deriv, deriv_none_of_panicked a e ha, deriv_none_of_ok b e hb, Option.map_none]
    · simp only [deriv, deriv_none_of_panicked a e ha, deriv_none_of_panicked b e hb, Option.map_none]

/-- a finished part takes no further step -/
theorem steps_of_done {r : PR ι} (h : status r ≠ .running) {l : List (PEv ι)} {r' : PR ι}
    (hs : steps r l = some r') : l = [] ∧ r' = r := by
  cases l with
  | nil => simp [steps] at hs; exact ⟨rfl, hs.symm⟩
  | cons e l =>
    exfalso
    simp only [steps] at hs
    cases hst : status r with
    | running => exact h hst
    | ok => rw [deriv_none_of_ok r e hst] at hs; cases hs
    | panicked => rw [deriv_none_of_panicked r e hst] at hs; cases hs

theorem not_hasPanic_of_ok : ∀ (r : PR ι), status r = .ok → hasPanic r = false
  | .nil, _ => rfl
  | .fin, _ => rfl
  | .dead, h => by simp [status] at h
  | .leaf _, _ => rfl
  | .closing _, _ => rfl
  | .scope _ _, _ => rfl
  | .scopeOpen _ _, h => by simp [status] at h
  | .seq a b, h => by
    simp only [status] at h
    cases ha : status a with
    | panicked => simp [ha] at h
    | running => simp [ha] at h
    | ok =>
      simp only [ha] at h
      simp [hasPanic, not_hasPanic_of_ok a ha, not_hasPanic_of_ok b h]
  | .par a b, h => by
    simp only [status] at h
    cases ha : status a <;> cases hb : status b <;> simp [ha, hb] at h
    simp [hasPanic, not_hasPanic_of_ok a ha, not_hasPanic_of_ok b hb]

/-- a finished part may always stop -/
theorem finalOk_of_done : ∀ (r : PR ι) (ab : Bool), status r ≠ .running → finalOk r ab = true
  | .nil, _, _ => rfl
  | .fin, _, _ => rfl
  | .dead, _, _ => rfl
  | .leaf _, _, h => by simp [status] at h
  | .closing _, _, h => by simp [status] at h
  | .scope _ _, _, h => by simp [status] at h
  | .scopeOpen _ _, _, h => by simp [status] at h
  | .seq a b, ab, h => by
    simp only [status] at h
    cases ha : status a with
    | running => simp [ha] at h
    | panicked => simp [finalOk, ha]
    | ok =>
      simp only [ha] at h
      simp [finalOk, ha, finalOk_of_done b ab h]
  | .par a b, ab, h => by
    simp only [status] at h
    cases ha : status a <;> cases hb : status b <;> simp [ha, hb] at h <;>
      simp [finalOk, finalOk_of_done a _ (by simp [ha]), finalOk_of_done b _ (by simp [hb])]

/-- when no system is inside its window, the execution may stop if abandoning is allowed -/
theorem finalOk_of_quiescent : ∀ (r : PR ι), quiescent r = true → finalOk r true = true
  | .nil, _ => rfl
  | .fin, _ => rfl
  | .dead, _ => rfl
  | .leaf _, _ => rfl
  | .closing _, h => by simp [quiescent] at h
  | .scope _ _, _ => rfl
  | .scopeOpen _ _, h => by simp [quiescent] at h
  | .seq a b, h => by
    simp only [quiescent, Bool.and_eq_true] at h
    simp only [finalOk]
    cases hs : status a with
    | panicked => rfl
    | ok => exact finalOk_of_quiescent b h.2
    | running => exact finalOk_of_quiescent a h.1
  | .par a b, h => by
    simp only [quiescent, Bool.and_eq_true] at h
    simp [finalOk, finalOk_of_quiescent a h.1, finalOk_of_quiescent b h.2]

theorem finalOk_mono : ∀ (r : PR ι) (ab : Bool), finalOk r ab = true → finalOk r true = true
  | .nil, _, _ => rfl
  | .fin, _, _ => rfl
  | .dead, _, _ => rfl
  | .leaf _, _, _ => rfl
  | .closing _, _, h => by simp [finalOk] at h
  | .scope _ _, _, _ => rfl
  | .scopeOpen _ _, _, h => by simp [finalOk] at h
  | .seq a b, ab, h => by
    simp only [finalOk] at *
    cases hs : status a with
    | panicked => rfl
    | ok => simp only [hs] at h ⊢; exact finalOk_mono b ab h
    | running => simp only [hs] at h ⊢; exact finalOk_mono a ab h
  | .par a b, ab, h => by
    simp only [finalOk, Bool.and_eq_true] at *
    exact ⟨by simpa using finalOk_mono a _ h.1, by simpa using finalOk_mono b _ h.2⟩

end PR
end Shred
