import ShredModel.Lemmas.TaskN
/-!
# Nesting by expansion (batches, C07)

`t.expand σ` replaces every leaf `s` of the (flat) outer task `t` for which `σ s = some body`
— the batches, as the outer scheduler sees them — by `scope s body`: the batch window around
what its controller dispatches. If the outer task is well-formed with respect to the batches'
*declared* access, every body is well-formed, and compatibility with a batch implies
compatibility with everything inside it (what "the batch accessor is the union" provides),
then the nested task is well-formed — so all trace theorems apply to it. Bodies may contain
scopes themselves: iterating from the innermost level outwards gives any nesting depth.
-/
namespace Shred
variable {ι : Type} [DecidableEq ι]
open Task

def Task.expand (σ : ι → Option (Task ι)) : Task ι → Task ι
  | .nil => .nil
  | .leaf x => match σ x with
    | some body => .scope x body
    | none => .leaf x
  | .seq a b => .seq (a.expand σ) (b.expand σ)
  | .par a b => .par (a.expand σ) (b.expand σ)
  | .scope x inner => .scope x (inner.expand σ)

/-- `y` is `x` itself or lies inside the body substituted for `x` -/
def Under (σ : ι → Option (Task ι)) (x y : ι) : Prop := y = x ∨ ∃ body, σ x = some body ∧ y ∈ body.sys

theorem mem_sys_expand {σ : ι → Option (Task ι)} {t : Task ι} {y : ι} (h : y ∈ (t.expand σ).sys) :
    ∃ x, x ∈ t.sys ∧ Under σ x y := by
  induction t with
  | nil => simp [Task.expand, Task.sys] at h
  | leaf x =>
    simp only [Task.expand] at h
    cases hσ : σ x with
    | none => simp [hσ, Task.sys] at h; exact ⟨x, by simp [Task.sys], Or.inl h⟩
    | some body =>
      simp only [hσ, Task.sys, List.mem_cons] at h
      rcases h with rfl | h
      · exact ⟨y, by simp [Task.sys], Or.inl rfl⟩
      · exact ⟨x, by simp [Task.sys], Or.inr ⟨body, hσ, h⟩⟩
  | seq a b iha ihb =>
    simp only [Task.expand, Task.sys, List.mem_append] at h
    rcases h with h | h
    · obtain ⟨x, hx, hu⟩ := iha h; exact ⟨x, by simp [Task.sys, hx], hu⟩
    · obtain ⟨x, hx, hu⟩ := ihb h; exact ⟨x, by simp [Task.sys, hx], hu⟩
  | par a b iha ihb =>
    simp only [Task.expand, Task.sys, List.mem_append] at h
    rcases h with h | h
    · obtain ⟨x, hx, hu⟩ := iha h; exact ⟨x, by simp [Task.sys, hx], hu⟩
    · obtain ⟨x, hx, hu⟩ := ihb h; exact ⟨x, by simp [Task.sys, hx], hu⟩
  | scope z inner ih =>
    simp only [Task.expand, Task.sys, List.mem_cons] at h
    rcases h with rfl | h
    · exact ⟨y, by simp [Task.sys], Or.inl rfl⟩
    · obtain ⟨x, hx, hu⟩ := ih h; exact ⟨x, by simp [Task.sys, hx], hu⟩

theorem mem_sys_expand_of_under {σ : ι → Option (Task ι)} {t : Task ι} (hflat : t.NoScope) {x y : ι}
    (hx : x ∈ t.sys) (hu : Under σ x y) : y ∈ (t.expand σ).sys := by
  induction t with
  | nil => cases hx
  | leaf z =>
    simp only [Task.sys, List.mem_singleton] at hx; subst hx
    simp only [Task.expand]
    rcases hu with rfl | ⟨body, hσ, hy⟩
    · cases σ y <;> simp [Task.sys]
    · simp [hσ, Task.sys, hy]
  | seq a b iha ihb =>
    simp only [Task.expand, Task.sys, List.mem_append] at hx ⊢
    rcases hx with h | h
    · exact Or.inl (iha hflat.1 h)
    · exact Or.inr (ihb hflat.2 h)
  | par a b iha ihb =>
    simp only [Task.expand, Task.sys, List.mem_append] at hx ⊢
    rcases hx with h | h
    · exact Or.inl (iha hflat.1 h)
    · exact Or.inr (ihb hflat.2 h)
  | scope z inner ih => exact absurd hflat id

/-- **C07, the structural half.** Expanding batches by well-formed bodies keeps the task
well-formed, provided being compatible with a batch means being compatible with its contents. -/
theorem wf_expand {C : ι → ι → Prop} {σ : ι → Option (Task ι)} {t : Task ι} (ht : WF C t)
    (hbody : ∀ s body, σ s = some body → WF C body)
    (hl : ∀ s body, σ s = some body → ∀ x y, y ∈ body.sys → C x s → C x y)
    (hr : ∀ s body, σ s = some body → ∀ x y, y ∈ body.sys → C s x → C y x) :
    WF C (t.expand σ) := by
  induction t with
  | nil => trivial
  | leaf x =>
    simp only [Task.expand]
    cases hσ : σ x with
    | none => trivial
    | some body => exact hbody x body hσ
  | seq a b iha ihb => exact ⟨iha ht.1, ihb ht.2⟩
  | par a b iha ihb =>
    refine ⟨?_, iha ht.2.1, ihb ht.2.2⟩
    intro x hx y hy
    obtain ⟨x0, hx0, hux⟩ := mem_sys_expand hx
    obtain ⟨y0, hy0, huy⟩ := mem_sys_expand hy
    have h0 : C x0 y0 := ht.1 x0 hx0 y0 hy0
    have h1 : C x y0 := by
      rcases hux with rfl | ⟨bx, hσx, hxb⟩
      · exact h0
      · exact hr x0 bx hσx y0 x hxb h0
    rcases huy with rfl | ⟨by', hσy, hyb⟩
    · exact h1
    · exact hl y0 by' hσy x y hyb h1
  | scope x inner ih => exact ih ht

/-- the order of the outer plan carries over to everything inside the batches -/
theorem before_expand {σ : ι → Option (Task ι)} {t : Task ι} (hflat : t.NoScope) {x y : ι}
    (h : Before t x y) : ∀ x' y', Under σ x x' → Under σ y y' → Before (t.expand σ) x' y' := by
  induction h with
  | here hx hy =>
    intro x' y' hux huy
    exact .here (mem_sys_expand_of_under hflat.1 hx hux) (mem_sys_expand_of_under hflat.2 hy huy)
  | seqL _ ih => intro x' y' hux huy; exact .seqL (ih hflat.1 x' y' hux huy)
  | seqR _ ih => intro x' y' hux huy; exact .seqR (ih hflat.2 x' y' hux huy)
  | parL _ ih => intro x' y' hux huy; exact .parL (ih hflat.1 x' y' hux huy)
  | parR _ ih => intro x' y' hux huy; exact .parR (ih hflat.2 x' y' hux huy)
  | scope _ _ => exact absurd hflat id

/-- the order inside a batch is kept -/
theorem before_expand_inner {σ : ι → Option (Task ι)} {t : Task ι} {s : ι} {body : Task ι}
    (hs : s ∈ t.sys) (hflat : t.NoScope) (hσ : σ s = some body) {u v : ι} (h : Before body u v) :
    Before (t.expand σ) u v := by
  induction t with
  | nil => cases hs
  | leaf z =>
    simp only [Task.sys, List.mem_singleton] at hs; subst hs
    simp only [Task.expand, hσ]
    exact .scope h
  | seq a b iha ihb =>
    simp only [Task.sys, List.mem_append] at hs
    rcases hs with hs | hs
    · exact .seqL (iha hs hflat.1)
    · exact .seqR (ihb hs hflat.2)
  | par a b iha ihb =>
    simp only [Task.sys, List.mem_append] at hs
    rcases hs with hs | hs
    · exact .parL (iha hs hflat.1)
    · exact .parR (ihb hs hflat.2)
  | scope z inner ih => exact absurd hflat id

#print axioms wf_expand
end Shred
