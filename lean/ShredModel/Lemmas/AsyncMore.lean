import ShredModel.Lemmas.AsyncAccept
/-!
# At most once at every moment, and what `wait` runs

* `inv_at_most_once`: in every reachable log every F/D event of every dispatch occurs at
  most once (a running job's events are a prefix of a trace of the stages task).
* `run_tl`: the thread-local events since the last `call` are a prefix of the thread-local
  task; `traces_tlTask`: its only trace is `F t₁, D t₁, F t₂, D t₂, …` in registration order.
-/
namespace Shred
namespace Async
open RTask

theorem shuffle_append_all {α} : ∀ (la lb : List α), Shuffle la lb (la ++ lb)
  | [], [] => .nil
  | [], y :: lb => by simpa using Shuffle.right (shuffle_append_all [] lb)
  | x :: la, lb => by simpa using Shuffle.left (shuffle_append_all la lb)

/-- every residual task can be run to completion -/
theorem rtask_has_trace : ∀ (r : RTask Nat), ∃ l, RTraces r l
  | .nil => ⟨[], .nil⟩
  | .leaf s => ⟨_, .leaf s⟩
  | .closing s => ⟨_, .closing s⟩
  | .seq a b => by
    obtain ⟨la, ha⟩ := rtask_has_trace a
    obtain ⟨lb, hb⟩ := rtask_has_trace b
    exact ⟨_, .seq ha hb⟩
  | .par a b => by
    obtain ⟨la, ha⟩ := rtask_has_trace a
    obtain ⟨lb, hb⟩ := rtask_has_trace b
    exact ⟨_, .par ha hb (shuffle_append_all la lb)⟩
  | .scope s body => by
    obtain ⟨l, h⟩ := rtask_has_trace body
    exact ⟨_, .scope h⟩
  | .scopeOpen s body => by
    obtain ⟨l, h⟩ := rtask_has_trace body
    exact ⟨_, .scopeOpen h⟩

theorem derivs_sound {t r : RTask Nat} {l rest : List (Ev Nat)} (h : derivs t l = some r)
    (hr : RTraces r rest) : RTraces t (l ++ rest) := by
  induction l generalizing t with
  | nil => simp [derivs] at h; subst h; simpa using hr
  | cons a l ih =>
    simp only [derivs] at h
    cases hd : deriv t a with
    | none => simp [hd] at h
    | some t' =>
      simp only [hd] at h
      exact deriv_sound _ _ _ _ hd (ih h)

theorem traces_count_le {t : Task Nat} {l : List (Ev Nat)} (h : Traces t l) (hnd : t.sys.Nodup)
    (e : Ev Nat) : l.count e ≤ 1 := by
  by_cases hm : e.sys ∈ t.sys
  · have := traces_once h hnd e.sys hm
    cases e with
    | F x => exact Nat.le_of_eq this.1
    | D x => exact Nat.le_of_eq this.2
  · rw [count_zero_of_not_sys h e hm]; exact Nat.zero_le 1

/-- the events of a job that is still running are a duplicate-free prefix of a trace -/
theorem derivs_count_le {t : Task Nat} {r : RTask Nat} {l : List (Ev Nat)} (h : derivs t.toR l = some r)
    (hnd : t.sys.Nodup) (e : Ev Nat) : l.count e ≤ 1 := by
  obtain ⟨rest, hr⟩ := rtask_has_trace r
  have ht : Traces t (l ++ rest) := traces_of_toR t _ (derivs_sound h hr)
  have := traces_count_le ht hnd e
  rw [List.count_append] at this
  omega

theorem inv_at_most_once {P : APlan} {c : Ctl} {l : List AEv} (hi : Inv P c l) (hnd : P.job.sys.Nodup)
    (d : Nat) (e : Ev Nat) : (projD d l).count e ≤ 1 := by
  obtain ⟨data, job, caller, n⟩ := c
  obtain ⟨_, hbey, hear, hcur, _, _, _, _, _⟩ := hi
  simp only at hbey hear hcur
  by_cases h1 : n ≤ d
  · rw [hbey d h1]; simp
  · by_cases h2 : d + 1 < n
    · exact traces_count_le (hear d h2) hnd e
    · have : d = n - 1 := by omega
      subst this
      cases job with
      | running r => exact derivs_count_le hcur.2 hnd e
      | idle => exact traces_count_le (hcur (by omega)) hnd e
      | sent => exact traces_count_le (hcur (by omega)) hnd e
      | failed r ps g => exact derivs_count_le hcur.2 hnd e

/-! ### thread-local systems inside `wait` -/

/-- the thread-local events since the most recent `call` -/
def tlSince : List AEv → List (Ev Nat) → List (Ev Nat)
  | [], acc => acc
  | .call _ :: l, _ => tlSince l []
  | .tl _ e :: l, acc => tlSince l (acc ++ [e])
  | _ :: l, acc => tlSince l acc

theorem tlSince_append (l l' : List AEv) (acc : List (Ev Nat)) :
    tlSince (l ++ l') acc = tlSince l' (tlSince l acc) := by
  induction l generalizing acc with
  | nil => rfl
  | cons a l ih => cases a <;> simp [tlSince, ih]

def tlOk (P : APlan) (l : List AEv) : Caller → Prop
  | .called _ => tlSince l [] = []
  | .inTl r => derivs P.tlTask.toR (tlSince l []) = some r
  | .tlFailed => ∃ r x, derivs P.tlTask.toR (tlSince l []) = some r ∧ x ∈ opens r
  | _ => True

theorem step_tlOk {P : APlan} {c c' : Ctl} {l : List AEv} {lb : Lbl} {o : Option AEv}
    (hi : tlOk P l c.caller) (hs : step P c lb = some (c', o)) : tlOk P (l ++ optList o) c'.caller := by
  obtain ⟨data, job, caller, n⟩ := c
  simp only at hi
  cases lb <;> simp only [step] at hs <;> (repeat' (split at hs)) <;> (try cases hs) <;>
    (try (simp_all [tlOk, optList, tlSince_append, tlSince, derivs]; done))
  · rename_i op _ _
    cases op <;> simp_all [tlOk, optList, afterAcquire, derivs]
  · rename_i r r' hr
    simp only [tlOk] at hi ⊢
    simp only [optList, tlSince_append, tlSince]
    rw [derivs_snoc, hi]
    exact hr
  · rename_i r hx
    simp only [tlOk] at hi ⊢
    exact ⟨r, _, by simpa [optList, tlSince_append, tlSince] using hi, by simpa using hx⟩

theorem run_tl {P : APlan} {c : Ctl} {l : List AEv} (h : Run P c l) : tlOk P l c.caller := by
  induction h with
  | init => trivial
  | step _ hs ih => exact step_tlOk ih hs

/-! ### setup hooks inside `setup` -/

/-- the setup hooks called since the most recent `call` -/
def hookSince : List AEv → List Nat → List Nat
  | [], acc => acc
  | .call _ :: l, _ => hookSince l []
  | .hook _ x :: l, acc => hookSince l (acc ++ [x])
  | _ :: l, acc => hookSince l acc

theorem hookSince_append (l l' : List AEv) (acc : List Nat) :
    hookSince (l ++ l') acc = hookSince l' (hookSince l acc) := by
  induction l generalizing acc with
  | nil => rfl
  | cons a l ih => cases a <;> simp [hookSince, ih]

def hkOk (P : APlan) (l : List AEv) : Caller → Prop
  | .called _ => hookSince l [] = []
  | .inSetup rest => hookSince l [] ++ rest = P.job.sys ++ P.tl
  | _ => True

theorem step_hkOk {P : APlan} {c c' : Ctl} {l : List AEv} {lb : Lbl} {o : Option AEv}
    (hi : hkOk P l c.caller) (hs : step P c lb = some (c', o)) : hkOk P (l ++ optList o) c'.caller := by
  obtain ⟨data, job, caller, n⟩ := c
  simp only at hi
  cases lb <;> simp only [step] at hs <;> (repeat' (split at hs)) <;> (try cases hs) <;>
    (try (simp_all [hkOk, optList, hookSince_append, hookSince]; done))
  · rename_i op _ _
    cases op <;> simp_all [hkOk, optList, afterAcquire]

theorem run_hk {P : APlan} {c : Ctl} {l : List AEv} (h : Run P c l) : hkOk P l c.caller := by
  induction h with
  | init => trivial
  | step _ hs ih => exact step_hkOk ih hs

/-- `for sys in &mut self.thread_local { sys.run_now(world) }` has exactly one trace -/
theorem traces_seqN_leaf (tl : List Nat) (l : List (Ev Nat))
    (h : Traces (Task.seqN (tl.map .leaf)) l) : l = tl.flatMap fun t => [Ev.F t, Ev.D t] := by
  induction tl generalizing l with
  | nil => cases h; rfl
  | cons t tl ih =>
    simp only [List.map, Task.seqN] at h
    cases h with
    | seq ha hb =>
      cases ha
      simp [ih _ hb]

end Async
end Shred
