import ShredModel.Lemmas.Invariance
import ShredModel.Lemmas.PlanTask
/-!
# C19 lifted to whole registration sequences, on the five-table builder of the code
-/
namespace Shred

/-- two registration sequences that differ only by an injective relabelling `ρ` of resources
and by the order / multiplicity in which each system lists its reads and writes -/
inductive OpsRel (ρ : ResId → ResId) : List SOp → List SOp → Prop
  | nil : OpsRel ρ [] []
  | barrier {a b} : OpsRel ρ a b → OpsRel ρ (.barrier :: a) (.barrier :: b)
  | insert {a b dep d d'} : SetImg ρ d.reads d'.reads → SetImg ρ d.writes d'.writes → d'.time = d.time →
      OpsRel ρ a b → OpsRel ρ (.insert dep d :: a) (.insert dep d' :: b)

/-- the `sys` / `ids` projections of related zipped builders coincide -/
theorem proj_eq_of_zrel {ρ : ResId → ResId} {z z' : ZB} (h : ZRel ρ z z') :
    z'.stages.map (fun st => st.map (·.sys)) = z.stages.map (fun st => st.map (·.sys)) ∧
    z'.stages.map (fun st => st.map (·.ids)) = z.stages.map (fun st => st.map (·.ids)) := by
  have key : ∀ (f : ZGroup → List Nat), (∀ g g', GRel ρ g g' → f g' = f g) →
      z'.stages.map (fun st => st.map f) = z.stages.map (fun st => st.map f) := by
    intro f hf
    apply List.ext_getElem?
    intro s
    simp only [List.getElem?_map]
    by_cases hs : s < z.stages.length
    · have hs' : s < z'.stages.length := by rw [h.len]; exact hs
      rw [List.getElem?_eq_getElem hs, List.getElem?_eq_getElem hs']
      simp only [Option.map_some]
      congr 1
      have hst := h.stage s _ _ (List.getElem?_eq_getElem hs) (List.getElem?_eq_getElem hs')
      apply List.ext_getElem?
      intro i
      simp only [List.getElem?_map]
      by_cases hi : i < z.stages[s].length
      · have hi' : i < z'.stages[s].length := by rw [hst.1]; exact hi
        rw [List.getElem?_eq_getElem hi, List.getElem?_eq_getElem hi']
        simp only [Option.map_some]
        congr 1
        exact hf _ _ (hst.2 i _ _ (List.getElem?_eq_getElem hi) (List.getElem?_eq_getElem hi'))
      · have h1 := hst.1
        rw [List.getElem?_eq_none (by omega), List.getElem?_eq_none (by omega)]
    · have h1 := h.len
      rw [List.getElem?_eq_none (by omega), List.getElem?_eq_none (by omega)]
  exact ⟨key (·.sys) (fun _ _ hg => hg.sys), key (·.ids) (fun _ _ hg => hg.ids)⟩

/-- running two related sequences from related states keeps the states related -/
theorem opsRel_foldl {ρ : ResId → ResId} (hinj : ∀ a b, ρ a = ρ b → a = b) {ops ops' : List SOp}
    (h : OpsRel ρ ops ops') :
    ∀ (st st' : StagesBuilder × Nat) (z z' : ZB), st'.2 = st.2 → Zips st.1 z → Zips st'.1 z' → ZRel ρ z z' →
      ∃ y y', Zips (ops.foldl SOp.step st).1 y ∧ Zips (ops'.foldl SOp.step st').1 y' ∧ ZRel ρ y y' ∧
        (ops'.foldl SOp.step st').2 = (ops.foldl SOp.step st).2 := by
  induction h with
  | nil => intro st st' z z' hn hz hz' hr; exact ⟨z, z', hz, hz', hr, hn⟩
  | barrier _ ih =>
    intro st st' z z' hn hz hz' hr
    simp only [List.foldl]
    refine ih _ _ z.addBarrier z'.addBarrier hn (addBarrier_sim hz) (addBarrier_sim hz') ?_
    exact ⟨by simp [ZB.addBarrier, hr.len], hr.len, hr.stage⟩
  | @insert a b dep d d' hrd hwr ht _ ih =>
    intro st st' z z' hn hz hz' hr
    simp only [List.foldl]
    refine ih _ _ _ _ (by simp [SOp.step, hn]) (insert_sim hz dep st.2 st.2 d) (by
      have := insert_sim hz' dep st'.2 st'.2 d'
      exact this) ?_
    rw [hn]
    exact insert_rel hinj hr sortDedup sortDedup (fun _ _ => mem_sortDedup) (fun _ _ => mem_sortDedup)
      dedup dep st.2 st.2 hrd hwr ht

end Shred
