import ShredModel.Lemmas.Reach
/-!
# From builder invariants to task-level facts

The executed table `b.stages` is the `sys` projection of the zipped view; its task is
well-formed (`WF`) when every stage is isolated, has pairwise distinct instances when ids
are counted once, and orders `A` before `B` whenever the layout does.
-/
namespace Shred
open Task

/-- the executed list is the `sys` projection of the zipped builder -/
theorem stages_eq_of_zips {b : StagesBuilder} {z : ZB} (hz : Zips b z) :
    b.stages = z.stages.map (fun st => st.map (·.sys)) := by
  apply List.ext_getElem?
  intro s
  have hlen := zips_length hz
  have hcol := (cols_eq hz s).2.2.2.2
  rw [List.getElem?_map]
  by_cases hs : s < b.stages.length
  · have hs' : s < z.stages.length := by omega
    rw [List.getElem?_eq_getElem hs, List.getElem?_eq_getElem hs']
    simp only [Option.map_some]
    congr 1
    simpa [List.getD, List.getElem?_eq_getElem hs, List.getElem?_eq_getElem hs'] using hcol
  · rw [List.getElem?_eq_none (by omega), List.getElem?_eq_none (by omega)]
    rfl

theorem ids_eq_of_zips {b : StagesBuilder} {z : ZB} (hz : Zips b z) :
    b.ids = z.stages.map (fun st => st.map (·.ids)) := by
  apply List.ext_getElem?
  intro s
  have hlen := zips_length hz
  have hcol := (cols_eq hz s).1
  rw [List.getElem?_map]
  by_cases hs : s < b.ids.length
  · have hs' : s < z.stages.length := by omega
    rw [List.getElem?_eq_getElem hs, List.getElem?_eq_getElem hs']
    simp only [Option.map_some]
    congr 1
    simpa [List.getD, List.getElem?_eq_getElem hs, List.getElem?_eq_getElem hs'] using hcol
  · rw [List.getElem?_eq_none (by omega), List.getElem?_eq_none (by omega)]
    rfl

/-- **C04/C20 lock-step**: the table that is executed equals the table that is printed -/
theorem stages_eq_ids {D Dep g z} (h : GoodZ D Dep g z) : g.b.stages = g.b.ids := by
  rw [stages_eq_of_zips h.zips, ids_eq_of_zips h.zips]
  apply List.map_congr_left
  intro st hst
  apply List.map_congr_left
  intro gr hgr
  exact (h.fit st hst gr hgr).pair

/-! ### `sys` of the plan tasks -/

theorem sys_groupTask (g : List SysTag) : (groupTask g).sys = g := by
  unfold groupTask
  rw [sys_seqN]
  induction g with
  | nil => rfl
  | cons x xs ih => simp [Task.sys, ih]

theorem sys_stageTask (st : List (List SysTag)) : (stageTask st).sys = st.flatten := by
  unfold stageTask
  rw [sys_parN]
  induction st with
  | nil => rfl
  | cons g gs ih => simp [sys_groupTask, ih]

theorem sys_stagesTask (t : Table (List SysTag)) : (stagesTask t).sys = t.flatten.flatten := by
  unfold stagesTask
  rw [sys_seqN]
  induction t with
  | nil => rfl
  | cons st sts ih => simp [sys_stageTask, ih]

theorem sys_dispatchTask (t : Table (List SysTag)) (tl : List SysTag) :
    (dispatchTask t tl).sys = t.flatten.flatten ++ tl := by
  unfold dispatchTask
  simp only [Task.sys, sys_stagesTask, sys_seqN]
  congr 1
  induction tl with
  | nil => rfl
  | cons x xs ih => simp [Task.sys, ih]

/-! ### well-formedness -/

/-- the compatibility relation of the scheduler: declared accesses do not conflict -/
def CompatD (D : Nat → Decl) (x y : Nat) : Prop := ¬ conflictsD (D x) (D y)

theorem compatD_symm (D : Nat → Decl) (x y : Nat) (h : CompatD D x y) : CompatD D y x :=
  fun hc => h (conflictsD_symm hc)

theorem wf_groupTask (C : Nat → Nat → Prop) (g : List SysTag) : WF C (groupTask g) := by
  unfold groupTask
  apply wf_seqN
  intro t ht
  obtain ⟨x, _, rfl⟩ := List.mem_map.mp ht
  trivial

theorem wf_stageTask {D : Nat → Decl} (st : ZStage) (hiso : IsolatedStage D st) :
    WF (CompatD D) (stageTask (st.map (·.sys))) := by
  unfold stageTask
  apply wf_parN
  · intro t ht
    obtain ⟨g, _, rfl⟩ := List.mem_map.mp ht
    exact wf_groupTask _ g
  · rw [List.pairwise_iff_getElem]
    intro i j hi hj hij x hx y hy
    simp only [List.length_map] at hi hj
    simp only [List.getElem_map, sys_groupTask] at hx hy
    exact hiso i j st[i] st[j] (List.getElem?_eq_getElem hi) (List.getElem?_eq_getElem hj) (by omega) x hx y hy

theorem wf_stagesTask {D : Nat → Decl} (z : ZB) (hok : z.OK D) :
    WF (CompatD D) (stagesTask (z.stages.map fun st => st.map (·.sys))) := by
  unfold stagesTask
  apply wf_seqN
  intro t ht
  obtain ⟨tab, htab, rfl⟩ := List.mem_map.mp ht
  obtain ⟨st, hst, rfl⟩ := List.mem_map.mp htab
  exact wf_stageTask st (hok st hst).iso

theorem wf_tl (C : Nat → Nat → Prop) (tl : List SysTag) : WF C (seqN (tl.map Task.leaf)) := by
  apply wf_seqN
  intro t ht
  obtain ⟨x, _, rfl⟩ := List.mem_map.mp ht
  trivial

/-- **the plan of every reachable builder is well-formed** -/
theorem wf_dispatchTask {D Dep g z} (h : GoodZ D Dep g z) (tl : List SysTag) :
    WF (CompatD D) (dispatchTask g.b.stages tl) := by
  unfold dispatchTask
  rw [stages_eq_of_zips h.zips]
  exact ⟨wf_stagesTask z h.ok, wf_tl _ tl⟩

/-! ### distinct instances -/

theorem flatten_sys_group (st : ZStage) (h : ∀ g, g ∈ st → g.sys = g.ids) :
    (st.map (·.sys)).flatten = st.flatMap (·.ids) := by
  induction st with
  | nil => rfl
  | cons gr grs ih =>
    simp only [List.map_cons, List.flatten_cons, List.flatMap_cons, h gr (by simp)]
    congr 1
    exact ih (fun g' hg' => h g' (by simp [hg']))

theorem flatten_sys_stages (sts : List ZStage) (h : ∀ st, st ∈ sts → ∀ g, g ∈ st → g.sys = g.ids) :
    (sts.map fun st => st.map (·.sys)).flatten.flatten = sts.flatMap fun st => st.flatMap (·.ids) := by
  induction sts with
  | nil => rfl
  | cons st sts ih =>
    simp only [List.map_cons, List.flatten_cons, List.flatten_append, List.flatMap_cons]
    rw [flatten_sys_group st (h st (by simp)), ih (fun st' hst' => h st' (by simp [hst']))]

theorem flatten_sys_eq_allIds {D Dep g z} (h : GoodZ D Dep g z) :
    (z.stages.map fun st => st.map (·.sys)).flatten.flatten = z.allIds :=
  flatten_sys_stages z.stages (fun st hst gr hgr => (h.fit st hst gr hgr).pair)

theorem nodup_dispatchTask {D Dep g z} (h : GoodZ D Dep g z) (tl : List SysTag) (htl : tl.Nodup)
    (hfresh : ∀ t, t ∈ tl → g.n ≤ t) : (dispatchTask g.b.stages tl).sys.Nodup := by
  rw [sys_dispatchTask, stages_eq_of_zips h.zips, flatten_sys_eq_allIds h]
  apply List.nodup_append.mpr
  refine ⟨?_, htl, ?_⟩
  · rw [List.nodup_iff_count]
    intro a; rw [h.ids a]; split <;> omega
  · intro a ha b hb hab
    subst hab
    have hcnt : 0 < z.allIds.count a := List.count_pos_iff.mpr ha
    rw [h.ids a] at hcnt
    have := hfresh a hb
    split at hcnt <;> omega


theorem noScope_dispatchTask (t : Table (List SysTag)) (tl : List SysTag) :
    (dispatchTask t tl).NoScope := by
  unfold dispatchTask stagesTask stageTask groupTask
  refine ⟨noScope_seqN _ ?_, noScope_seqN _ ?_⟩
  · intro a ha
    obtain ⟨st, _, rfl⟩ := List.mem_map.mp ha
    apply noScope_parN
    intro b hb
    obtain ⟨g, _, rfl⟩ := List.mem_map.mp hb
    apply noScope_seqN
    intro c hc
    obtain ⟨x, _, rfl⟩ := List.mem_map.mp hc
    trivial
  · intro c hc
    obtain ⟨x, _, rfl⟩ := List.mem_map.mp hc
    trivial

/-! ### the layout order is the task order -/

theorem before_of_ordered {D Dep g z} (h : GoodZ D Dep g z) {A B : Nat} (ho : OrderedBefore z A B)
    (tl : List SysTag) : Before (dispatchTask g.b.stages tl) A B := by
  unfold dispatchTask
  rw [stages_eq_of_zips h.zips]
  apply Before.seqL
  unfold stagesTask
  have hpair : ∀ st, st ∈ z.stages → ∀ gr, gr ∈ st → gr.sys = gr.ids :=
    fun st hst gr hgr => (h.fit st hst gr hgr).pair
  rcases ho with ⟨sa, sb, hlt, ⟨sta, ga, hsa, hga, hA⟩, ⟨stb, gb, hsb, hgb, hB⟩⟩ |
      ⟨s, st, k, gr, i, j, hs, hk, hij, hi, hj⟩
  · apply before_seqN_of_lt (i := sa) (j := sb)
      (a := stageTask (sta.map (·.sys))) (b := stageTask (stb.map (·.sys)))
    · simp [List.getElem?_map, hsa]
    · simp [List.getElem?_map, hsb]
    · exact hlt
    · rw [sys_stageTask]
      exact List.mem_flatten.mpr ⟨ga.sys, List.mem_map.mpr ⟨ga, hga, rfl⟩,
        by rw [hpair sta (List.mem_of_getElem? hsa) ga hga]; exact hA⟩
    · rw [sys_stageTask]
      exact List.mem_flatten.mpr ⟨gb.sys, List.mem_map.mpr ⟨gb, hgb, rfl⟩,
        by rw [hpair stb (List.mem_of_getElem? hsb) gb hgb]; exact hB⟩
  · have hgr : gr ∈ st := List.mem_of_getElem? hk
    have hsys := hpair st (List.mem_of_getElem? hs) gr hgr
    apply before_seqN_of_mem (a := stageTask (st.map (·.sys)))
    · exact List.mem_map.mpr ⟨st.map (·.sys), List.mem_map.mpr ⟨st, List.mem_of_getElem? hs, rfl⟩, rfl⟩
    · unfold stageTask
      apply before_parN_of_mem (a := groupTask gr.sys)
      · exact List.mem_map.mpr ⟨gr.sys, List.mem_map.mpr ⟨gr, hgr, rfl⟩, rfl⟩
      · unfold groupTask
        apply before_seqN_of_lt (i := i) (j := j) (a := Task.leaf A) (b := Task.leaf B)
        · simp [List.getElem?_map, hsys, hi]
        · simp [List.getElem?_map, hsys, hj]
        · exact hij
        · simp [Task.sys]
        · simp [Task.sys]

/-- a staged system is before every thread-local system; thread-local systems keep their order -/
theorem before_tl {t : Table (List SysTag)} {tl : List SysTag} {x y : Nat}
    (hx : x ∈ t.flatten.flatten) (hy : y ∈ tl) : Before (dispatchTask t tl) x y := by
  unfold dispatchTask
  apply Before.here
  · rw [sys_stagesTask]; exact hx
  · rw [sys_seqN]
    exact List.mem_flatMap.mpr ⟨Task.leaf y, List.mem_map.mpr ⟨y, hy, rfl⟩, by simp [Task.sys]⟩

theorem before_tl_order {t : Table (List SysTag)} {tl : List SysTag} {i j : Nat} {x y : Nat}
    (hi : tl[i]? = some x) (hj : tl[j]? = some y) (hij : i < j) : Before (dispatchTask t tl) x y := by
  unfold dispatchTask
  apply Before.seqR
  apply before_seqN_of_lt (i := i) (j := j) (a := Task.leaf x) (b := Task.leaf y)
  · simp [List.getElem?_map, hi]
  · simp [List.getElem?_map, hj]
  · exact hij
  · simp [Task.sys]
  · simp [Task.sys]

end Shred
