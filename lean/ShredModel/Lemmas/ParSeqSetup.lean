import ShredModel.Lemmas.ParSeq
/-!
# Leaves' accessors and repeated `setup` (C16)

`declOf` in terms of the two sources of an accessor; `createAbsent` / `setupWorldAcc` in closed
form (membership, and "only appends"); every call of a history of `setup` calls observes the
same hooks.
-/
namespace Shred
namespace PS

/-! ### which accessor -/

theorem declOf_own {spec : Nat → LeafSpec} {s : Nat} {d : Decl} (h : (spec s).own = some d) :
    declOf spec s = d := by
  simp [declOf, LeafSpec.accessor, h]

theorem declOf_default {spec : Nat → LeafSpec} {s : Nat} {d : Decl} (ho : (spec s).own = none)
    (h : (spec s).tryNew = some d) : declOf spec s = d := by
  simp [declOf, LeafSpec.accessor, ho, h]

theorem flatMap_congr_mem {α β} (l : List α) (f g : α → List β) (h : ∀ x, x ∈ l → f x = g x) :
    l.flatMap f = l.flatMap g := by
  induction l with
  | nil => rfl
  | cons a l ih =>
    simp only [List.flatMap_cons]
    rw [h a (by simp), ih (fun x hx => h x (by simp [hx]))]

/-! ### the world after a setup -/

theorem mem_createAbsent (l w : List ResId) (r : ResId) :
    r ∈ createAbsent w l ↔ r ∈ w ∨ r ∈ l := by
  induction l generalizing w with
  | nil => simp [createAbsent]
  | cons a l ih =>
    simp only [createAbsent]
    rw [ih]
    cases hc : w.contains a with
    | true =>
      have : a ∈ w := by simpa using hc
      simp only [if_true, List.mem_cons]
      constructor
      · rintro (h | h)
        · exact .inl h
        · exact .inr (.inr h)
      · rintro (h | h | h)
        · exact .inl h
        · exact .inl (h ▸ this)
        · exact .inr h
    | false =>
      simp only [Bool.false_eq_true, if_false, List.mem_append, List.mem_cons, List.not_mem_nil,
        or_false]
      constructor
      · rintro ((h | h) | h)
        · exact .inl h
        · exact .inr (.inl h)
        · exact .inr (.inr h)
      · rintro (h | h | h)
        · exact .inl (.inl h)
        · exact .inl (.inr h)
        · exact .inr h

/-- nothing is removed or reordered: the world is only extended -/
theorem createAbsent_extends (l w : List ResId) : ∃ ext, createAbsent w l = w ++ ext := by
  induction l generalizing w with
  | nil => exact ⟨[], by simp [createAbsent]⟩
  | cons a l ih =>
    simp only [createAbsent]
    cases hc : w.contains a with
    | true => simp only [if_true]; exact ih w
    | false =>
      simp only [Bool.false_eq_true, if_false]
      obtain ⟨ext, he⟩ := ih (w ++ [a])
      exact ⟨a :: ext, by rw [he]; simp⟩

theorem mem_setupWorldAcc (creates : Nat → List ResId) (t : PS) (w : List ResId) (r : ResId) :
    r ∈ setupWorldAcc creates t w ↔ r ∈ w ∨ ∃ x, x ∈ t.leaves ∧ r ∈ creates x := by
  induction t generalizing w with
  | nil => simp [setupWorldAcc, leaves]
  | leaf s => simp [setupWorldAcc, leaves, mem_createAbsent]
  | par h t ih1 ih2 =>
    simp only [setupWorldAcc, leaves, ih2, ih1, List.mem_append]
    constructor
    · rintro ((h | ⟨x, hx, hr⟩) | ⟨x, hx, hr⟩)
      · exact .inl h
      · exact .inr ⟨x, .inl hx, hr⟩
      · exact .inr ⟨x, .inr hx, hr⟩
    · rintro (h | ⟨x, hx | hx, hr⟩)
      · exact .inl (.inl h)
      · exact .inl (.inr ⟨x, hx, hr⟩)
      · exact .inr ⟨x, hx, hr⟩
  | seq h t ih1 ih2 =>
    simp only [setupWorldAcc, leaves, ih2, ih1, List.mem_append]
    constructor
    · rintro ((h | ⟨x, hx, hr⟩) | ⟨x, hx, hr⟩)
      · exact .inl h
      · exact .inr ⟨x, .inl hx, hr⟩
      · exact .inr ⟨x, .inr hx, hr⟩
    · rintro (h | ⟨x, hx | hx, hr⟩)
      · exact .inl (.inl h)
      · exact .inl (.inr ⟨x, hx, hr⟩)
      · exact .inr ⟨x, hx, hr⟩

theorem setupWorldAcc_extends (creates : Nat → List ResId) (t : PS) (w : List ResId) :
    ∃ ext, setupWorldAcc creates t w = w ++ ext := by
  induction t generalizing w with
  | nil => exact ⟨[], by simp [setupWorldAcc]⟩
  | leaf s => exact createAbsent_extends _ _
  | par h t ih1 ih2 =>
    obtain ⟨e1, h1⟩ := ih1 w
    obtain ⟨e2, h2⟩ := ih2 (w ++ e1)
    exact ⟨e1 ++ e2, by simp [setupWorldAcc, h1, h2]⟩
  | seq h t ih1 ih2 =>
    obtain ⟨e1, h1⟩ := ih1 w
    obtain ⟨e2, h2⟩ := ih2 (w ++ e1)
    exact ⟨e1 ++ e2, by simp [setupWorldAcc, h1, h2]⟩

/-! ### histories of setup calls -/

theorem setup_keeps (d : Disp) (v : Via) (creates : Nat → List ResId) (w : List ResId) :
    (d.setup v creates w).1 = d := rfl

theorem setups_eq (d : Disp) (creates : Nat → List ResId) (calls : List (Via × List ResId)) :
    d.setups creates calls = calls.map (fun c => (d.run.leaves, setupWorldAcc creates d.run c.2)) := by
  induction calls with
  | nil => rfl
  | cons c rest ih =>
    obtain ⟨v, w⟩ := c
    simp only [Disp.setups, List.map_cons, setup_keeps, ih]
    simp [Disp.setup, setupOrder, setupAcc_eq]

end PS
end Shred
