import ShredModel.Model.World
/-!
# Lemmas about the `World` model: the resource table, the guard table, the borrow invariant
(C08) and its preservation by every operation.
-/
namespace Shred
open World

/-! ## resource table -/

@[simp] theorem lookup_setCell_same (k : ResId) (c : Cell) (l : List (ResId × Cell)) :
    lookupCell k (setCell k c l) = some c := by
  induction l with
  | nil => simp [setCell, lookupCell]
  | cons p rest ih =>
    by_cases h : p.1 = k <;> simp [setCell, lookupCell, h, ih]

theorem lookup_setCell_other {k k' : ResId} (c : Cell) (l : List (ResId × Cell)) (h : k' ≠ k) :
    lookupCell k' (setCell k c l) = lookupCell k' l := by
  induction l with
  | nil => simp [setCell, lookupCell, Ne.symm h]
  | cons p rest ih =>
    by_cases h1 : p.1 = k
    · have : p.1 ≠ k' := by rw [h1]; exact Ne.symm h
      simp [setCell, lookupCell, h1, Ne.symm h]
    · by_cases h2 : p.1 = k'
      · simp [setCell, lookupCell, h2, h]
      · simp only [setCell, h1, if_false, lookupCell, h2, ih]

@[simp] theorem lookup_eraseCell_same (k : ResId) (l : List (ResId × Cell)) :
    lookupCell k (eraseCell k l) = none := by
  induction l with
  | nil => simp [eraseCell, lookupCell]
  | cons p rest ih =>
    by_cases h : p.1 = k <;> simp [eraseCell, lookupCell, h, ih]

theorem lookup_eraseCell_other {k k' : ResId} (l : List (ResId × Cell)) (h : k' ≠ k) :
    lookupCell k' (eraseCell k l) = lookupCell k' l := by
  induction l with
  | nil => simp [eraseCell, lookupCell]
  | cons p rest ih =>
    by_cases h1 : p.1 = k
    · have : p.1 ≠ k' := by rw [h1]; exact Ne.symm h
      simp only [eraseCell, h1, if_true, lookupCell, ih]
      rw [← h1, if_neg this]
    · by_cases h2 : p.1 = k'
      · simp [eraseCell, lookupCell, h2, h]
      · simp only [eraseCell, h1, if_false, lookupCell, h2, ih]

theorem setCell_self {k : ResId} {c : Cell} {l : List (ResId × Cell)} (h : lookupCell k l = some c) :
    setCell k c l = l := by
  induction l with
  | nil => simp [lookupCell] at h
  | cons p rest ih =>
    by_cases h1 : p.1 = k
    · simp [lookupCell, h1] at h
      simp only [setCell, h1, if_true]
      rw [← h1, ← h]
    · simp [lookupCell, h1] at h
      simp [setCell, h1, ih h]

@[simp] theorem setCell_setCell (k : ResId) (c c' : Cell) (l : List (ResId × Cell)) :
    setCell k c (setCell k c' l) = setCell k c l := by
  induction l with
  | nil => simp [setCell]
  | cons p rest ih =>
    by_cases h1 : p.1 = k <;> simp [setCell, h1, ih]

/-! ## guard table -/

/-- number of live guards on `r` of the given kind -/
def World.nLive (w : World) (r : ResId) (x : Bool) : Nat := (w.guards.map (·.2)).count ⟨r, x⟩

theorem findGuard_mem {h : Nat} {g : Guard} {gs : List (Nat × Guard)} (hf : findGuard h gs = some g) :
    (h, g) ∈ gs := by
  induction gs with
  | nil => simp [findGuard] at hf
  | cons p rest ih =>
    by_cases h1 : p.1 = h
    · simp [findGuard, h1] at hf
      have : p = (h, g) := by rw [← h1, ← hf]
      simp [this]
    · simp [findGuard, h1] at hf
      exact List.mem_cons_of_mem _ (ih hf)

theorem findGuard_none {h : Nat} {gs : List (Nat × Guard)} (hf : ∀ p ∈ gs, p.1 ≠ h) :
    findGuard h gs = none := by
  induction gs with
  | nil => rfl
  | cons p rest ih =>
    have h1 : p.1 ≠ h := hf p (by simp)
    simp [findGuard, h1]
    exact ih fun q hq => hf q (by simp [hq])

theorem count_dropGuard {h : Nat} {g : Guard} {gs : List (Nat × Guard)} (hf : findGuard h gs = some g)
    (g' : Guard) :
    ((dropGuard h gs).map (·.2)).count g' + (if g = g' then 1 else 0) = (gs.map (·.2)).count g' := by
  induction gs with
  | nil => simp [findGuard] at hf
  | cons p rest ih =>
    by_cases h1 : p.1 = h
    · simp [findGuard, h1] at hf
      simp only [dropGuard, h1, if_true, List.map_cons, List.count_cons, hf]
      by_cases h2 : g = g' <;> simp [h2]
    · simp [findGuard, h1] at hf
      have := ih hf
      simp only [dropGuard, h1, if_false, List.map_cons, List.count_cons]
      omega

theorem dropGuard_append_fresh {h : Nat} {g : Guard} {gs : List (Nat × Guard)} (hf : ∀ p ∈ gs, p.1 ≠ h) :
    dropGuard h (gs ++ [(h, g)]) = gs := by
  induction gs with
  | nil => simp [dropGuard]
  | cons p rest ih =>
    have h1 : p.1 ≠ h := hf p (by simp)
    simp [dropGuard, h1]
    exact ih fun q hq => hf q (by simp [hq])

theorem findGuard_append_fresh {h : Nat} {g : Guard} {gs : List (Nat × Guard)} (hf : ∀ p ∈ gs, p.1 ≠ h) :
    findGuard h (gs ++ [(h, g)]) = some g := by
  induction gs with
  | nil => simp [findGuard]
  | cons p rest ih =>
    have h1 : p.1 ≠ h := hf p (by simp)
    simp [findGuard, h1]
    exact ih fun q hq => hf q (by simp [hq])

theorem dropGuard_sublist (h : Nat) (gs : List (Nat × Guard)) : (dropGuard h gs).Sublist gs := by
  induction gs with
  | nil => simp [dropGuard]
  | cons p rest ih =>
    by_cases h1 : p.1 = h
    · simp [dropGuard, h1]
    · simp [dropGuard, h1, ih]

/-! ## the borrow invariant (C08) -/

/-- what the counter of a cell must say given the numbers of live shared / exclusive guards -/
def BorrowOk : Option Borrow → Nat → Nat → Prop
  | none, s, x => s = 0 ∧ x = 0
  | some .free, s, x => s = 0 ∧ x = 0
  | some (.shared n), s, x => 0 < n ∧ s = n ∧ x = 0
  | some .excl, s, x => s = 0 ∧ x = 1

/-- **the invariant of C08**: every cell is free with no live guard, shared by exactly its `n > 0`
live shared guards, or exclusive with exactly one live guard, which is exclusive; guards on absent
resources do not exist -/
def Inv (w : World) : Prop :=
  ∀ r, BorrowOk ((w.get r).map (·.borrow)) (w.nLive r false) (w.nLive r true)

/-- handles are issued in increasing order and never reused -/
def HandlesOk (w : World) : Prop :=
  (w.guards.map (·.1)).Pairwise (· < ·) ∧ ∀ p ∈ w.guards, p.1 < w.nextHandle

theorem HandlesOk.fresh {w : World} (hw : HandlesOk w) : ∀ p ∈ w.guards, p.1 ≠ w.nextHandle :=
  fun p hp => Nat.ne_of_lt (hw.2 p hp)

theorem HandlesOk.nodup {w : World} (hw : HandlesOk w) : (w.guards.map (·.1)).Nodup :=
  hw.1.imp (fun h => Nat.ne_of_lt h)

theorem nLive_nil {w : World} (h : w.guards = []) (r : ResId) (x : Bool) : w.nLive r x = 0 := by
  simp [World.nLive, h]

/-- the two compatibility conditions of the cell -/
theorem tryBorrow_some_iff (b : Borrow) (excl : Bool) :
    (tryBorrow b excl).isSome ↔ (excl = false ∧ b ≠ .excl) ∨ (excl = true ∧ b = .free) := by
  cases b <;> cases excl <;> simp [tryBorrow]

section fetch
variable (w : World) (k : ResId) (excl : Bool) (f : Form) (orPanic : Bool)

theorem fetchCore_absent (h : w.get k = none) :
    w.fetchCore k excl f orPanic = (w, if orPanic then .panic .absent else .none) := by
  simp [fetchCore, h]

theorem fetchCore_conflict {c : Cell} (h : w.get k = some c) (hb : tryBorrow c.borrow excl = none) :
    w.fetchCore k excl f orPanic = (w, .panic (borrowPanic f c.borrow excl)) := by
  simp [fetchCore, h, hb]

theorem fetchCore_ok {c : Cell} {b' : Borrow} (h : w.get k = some c) (hb : tryBorrow c.borrow excl = some b') :
    w.fetchCore k excl f orPanic =
      ({ w with cells := setCell k { c with borrow := b' } w.cells,
                guards := w.guards ++ [(w.nextHandle, ⟨k, excl⟩)],
                nextHandle := w.nextHandle + 1 }, .guard w.nextHandle c.token) := by
  simp [fetchCore, h, hb]

/-- every fetch either leaves the world alone (answering `none` or a panic) or takes exactly one
borrow -/
theorem fetchCore_cases :
    ((w.fetchCore k excl f orPanic).1 = w ∧
      ((w.get k = none ∧ (w.fetchCore k excl f orPanic).2 = if orPanic then .panic .absent else .none) ∨
       (∃ c, w.get k = some c ∧ tryBorrow c.borrow excl = none ∧
          (w.fetchCore k excl f orPanic).2 = .panic (borrowPanic f c.borrow excl)))) ∨
    (∃ c b', w.get k = some c ∧ tryBorrow c.borrow excl = some b' ∧
      w.fetchCore k excl f orPanic =
        ({ w with cells := setCell k { c with borrow := b' } w.cells,
                  guards := w.guards ++ [(w.nextHandle, ⟨k, excl⟩)],
                  nextHandle := w.nextHandle + 1 }, .guard w.nextHandle c.token)) := by
  cases h : w.get k with
  | none => left; simp [fetchCore, h]
  | some c =>
    cases hb : tryBorrow c.borrow excl with
    | none => left; simp [fetchCore, h, hb]
    | some b' => right; exact ⟨c, b', rfl, hb, by simp [fetchCore, h, hb]⟩

end fetch

theorem get_def (w : World) (k : ResId) : w.get k = lookupCell k w.cells := rfl

/-- taking one borrow preserves the invariant -/
theorem inv_acquire {w : World} (hw : Inv w) {k : ResId} {c : Cell} {excl : Bool} {b' : Borrow}
    (h : w.get k = some c) (hb : tryBorrow c.borrow excl = some b') :
    Inv { w with cells := setCell k { c with borrow := b' } w.cells,
                 guards := w.guards ++ [(w.nextHandle, ⟨k, excl⟩)],
                 nextHandle := w.nextHandle + 1 } := by
  intro r
  have hr := hw r
  by_cases hrk : r = k
  · subst hrk
    simp only [get_def, lookup_setCell_same, Option.map_some, World.nLive, List.map_append,
      List.map_cons, List.map_nil, List.count_append, List.count_singleton] at hr ⊢
    rw [get_def] at h
    rw [h] at hr
    simp only [Option.map_some] at hr
    cases hcb : c.borrow <;> cases excl <;> rw [hcb] at hb hr <;> simp [tryBorrow] at hb <;>
      subst hb <;> simp only [BorrowOk] at hr ⊢ <;> simp <;> omega
  · have hne : (⟨k, excl⟩ : Guard) ≠ ⟨r, false⟩ := by
      intro he; injection he with h1 _; exact hrk h1.symm
    have hne' : (⟨k, excl⟩ : Guard) ≠ ⟨r, true⟩ := by
      intro he; injection he with h1 _; exact hrk h1.symm
    simp only [get_def, lookup_setCell_other _ _ hrk, World.nLive, List.map_append,
      List.map_cons, List.map_nil, List.count_append, List.count_singleton] at hr ⊢
    simpa [hne, hne'] using hr

theorem fetchCore_inv {w : World} (hw : Inv w) (k : ResId) (excl : Bool) (f : Form) (orPanic : Bool) :
    Inv (w.fetchCore k excl f orPanic).1 := by
  rcases fetchCore_cases w k excl f orPanic with ⟨h, _⟩ | ⟨c, b', h, hb, he⟩
  · rw [h]; exact hw
  · rw [he]; exact inv_acquire hw h hb

theorem fetchCore_handles {w : World} (hw : HandlesOk w) (k : ResId) (excl : Bool) (f : Form) (orPanic : Bool) :
    HandlesOk (w.fetchCore k excl f orPanic).1 := by
  rcases fetchCore_cases w k excl f orPanic with ⟨h, _⟩ | ⟨c, b', _, _, he⟩
  · rw [h]; exact hw
  · rw [he]
    refine ⟨?_, ?_⟩
    · simp only [List.map_append, List.map_cons, List.map_nil, List.pairwise_append]
      refine ⟨hw.1, by simp, ?_⟩
      intro a ha b hb
      simp at hb; subst hb
      obtain ⟨p, hp, rfl⟩ := List.mem_map.mp ha
      exact hw.2 p hp
    · intro p hp
      simp only [List.mem_append, List.mem_singleton] at hp
      rcases hp with hp | rfl
      · exact Nat.lt_succ_of_lt (hw.2 p hp)
      · exact Nat.lt_succ_self _

theorem release_dead {w : World} {h : Nat} (hf : findGuard h w.guards = none) : w.release h = w := by
  simp [release, hf]

theorem release_absent {w : World} {h : Nat} {g : Guard} (hf : findGuard h w.guards = some g)
    (hg : w.get g.key = none) : w.release h = { w with guards := dropGuard h w.guards } := by
  simp [release, hf, hg]

theorem release_live {w : World} {h : Nat} {g : Guard} {c : Cell} (hf : findGuard h w.guards = some g)
    (hg : w.get g.key = some c) :
    w.release h = { w with guards := dropGuard h w.guards,
                           cells := setCell g.key { c with borrow := releaseBorrow c.borrow g.excl } w.cells } := by
  simp [release, hf, hg]

/-- releasing a guard preserves the invariant -/
theorem release_inv {w : World} (hw : Inv w) (h : Nat) : Inv (w.release h) := by
  cases hf : findGuard h w.guards with
  | none => rw [release_dead hf]; exact hw
  | some g =>
    have hcnt := count_dropGuard hf
    have hmem : g ∈ w.guards.map (·.2) := List.mem_map.mpr ⟨(h, g), findGuard_mem hf, rfl⟩
    have hpos : 0 < (w.guards.map (·.2)).count g := List.count_pos_iff.mpr hmem
    have hgk := hw g.key
    cases hg : w.get g.key with
    | none =>
      -- impossible: a live guard on an absent resource
      exfalso
      rw [hg] at hgk
      simp only [Option.map_none, BorrowOk, World.nLive] at hgk
      cases hx : g.excl
      · have : g = ⟨g.key, false⟩ := by cases g; simp_all
        rw [this] at hpos; omega
      · have : g = ⟨g.key, true⟩ := by cases g; simp_all
        rw [this] at hpos; omega
    | some c =>
      rw [release_live hf hg]
      intro r
      have hr := hw r
      have c1 := hcnt ⟨r, false⟩
      have c2 := hcnt ⟨r, true⟩
      by_cases hrk : r = g.key
      · subst hrk
        rw [hg] at hr
        simp only [get_def, lookup_setCell_same, Option.map_some, World.nLive] at hr ⊢
        cases hx : g.excl
        · have e1 : g = ⟨g.key, false⟩ := by cases g; simp_all
          have n2 : g ≠ ⟨g.key, true⟩ := by intro he; rw [he] at hx; simp at hx
          rw [if_pos e1] at c1; rw [if_neg n2] at c2
          rw [e1] at hpos
          cases hcb : c.borrow with
          | free => rw [hcb] at hr; simp only [BorrowOk] at hr; omega
          | excl => rw [hcb] at hr; simp only [BorrowOk] at hr; omega
          | shared n =>
            rw [hcb] at hr; simp only [BorrowOk] at hr
            match n, hr with
            | 0, hr => omega
            | 1, hr => simp only [releaseBorrow, BorrowOk]; omega
            | n + 2, hr => simp only [releaseBorrow, BorrowOk]; omega
        · have e1 : g = ⟨g.key, true⟩ := by cases g; simp_all
          have n2 : g ≠ ⟨g.key, false⟩ := by intro he; rw [he] at hx; simp at hx
          rw [if_pos e1] at c2; rw [if_neg n2] at c1
          rw [e1] at hpos
          cases hcb : c.borrow with
          | free => rw [hcb] at hr; simp only [BorrowOk] at hr; omega
          | shared n => rw [hcb] at hr; simp only [BorrowOk] at hr; omega
          | excl =>
            rw [hcb] at hr; simp only [BorrowOk] at hr
            simp only [releaseBorrow, BorrowOk]; omega
      · have n1 : g ≠ ⟨r, false⟩ := by intro he; apply hrk; rw [he]
        have n2 : g ≠ ⟨r, true⟩ := by intro he; apply hrk; rw [he]
        rw [if_neg n1] at c1; rw [if_neg n2] at c2
        simp only [get_def, lookup_setCell_other _ _ hrk, World.nLive] at hr ⊢
        simp only [Nat.add_zero] at c1 c2
        rw [c1, c2]; exact hr

theorem release_handles {w : World} (hw : HandlesOk w) (h : Nat) : HandlesOk (w.release h) := by
  have hs := dropGuard_sublist h w.guards
  have key : HandlesOk { w with guards := dropGuard h w.guards } :=
    ⟨hw.1.sublist (hs.map _), fun p hp => hw.2 p (hs.subset hp)⟩
  cases hf : findGuard h w.guards with
  | none => rw [release_dead hf]; exact hw
  | some g =>
    cases hg : w.get g.key with
    | none => rw [release_absent hf hg]; exact key
    | some c => rw [release_live hf hg]; exact ⟨key.1, key.2⟩

end Shred
