import ShredModel.Lemmas.Zip
/-!
# Further invariants of the zipped builder

* every placed id occurs exactly once (`insert_count`, C04);
* groups stay below the `ArrayVec` capacity when the join policy refuses groups of
  `cap - 1` (C18), running times stay small (C18: the `u8`/`i8` arithmetic is exact);
* the executed list and the id table agree (`PairOK`, C04/C20);
* the new system lands at or behind the barrier, nothing else moves (C03).
-/
namespace Shred

/-! ### where the scan can point -/

/-- a target that denotes an existing stage (and group) of the builder, or a new stage -/
def ValidTarget (b : ZB) : InsertionTarget → Prop
  | .stage s => b.barrier ≤ s ∧ ∃ st, b.stages[s]? = some st
  | .group s g => b.barrier ≤ s ∧ ∃ st gk, b.stages[s]? = some st ∧ st[g]? = some gk
  | .newStage => True

theorem zFindConflict_single_some {st : ZStage} {nr nw dep k}
    (h : zFindConflict st nr nw dep = .single k) : ∃ g, st[k]? = some g :=
  (zFindConflict_single h).1

theorem target_valid (joinOk : ZStage → Nat → Nat → Bool) (dedupN : List Nat → List Nat)
    (b : ZB) (dep : List Nat) (nr : List ResId) (d : Decl) :
    ValidTarget b (b.target joinOk dedupN dep nr d) := by
  unfold ZB.target
  rcases zScan_spec (joinOk := joinOk) (nr := nr) (nw := d.writes) (t := d.time)
      b.barrier (b.stages.drop b.barrier) (zPrepDep dedupN b dep) with
    ⟨k, st, hk, _, hres⟩ | ⟨_, hres⟩
  · rw [List.getElem?_drop] at hk
    rcases hres with ⟨_, hsc⟩ | ⟨g, hv, hsc⟩
    · rw [hsc]; exact ⟨Nat.le_add_right _ _, st, hk⟩
    · rw [hsc]
      obtain ⟨gk, hgk⟩ := zFindConflict_single_some (zVerdict_join hv).1
      exact ⟨Nat.le_add_right _ _, st, gk, hk, hgk⟩
  · rw [hres]; trivial

/-- when the join policy is asked, it is asked about the group the scan returns -/
theorem target_group_join (joinOk : ZStage → Nat → Nat → Bool) (dedupN : List Nat → List Nat)
    (b : ZB) (dep : List Nat) (nr : List ResId) (d : Decl) (s g : Nat)
    (h : b.target joinOk dedupN dep nr d = .group s g) :
    ∃ st, b.stages[s]? = some st ∧ joinOk st g d.time = true := by
  unfold ZB.target at h
  rcases zScan_spec (joinOk := joinOk) (nr := nr) (nw := d.writes) (t := d.time)
      b.barrier (b.stages.drop b.barrier) (zPrepDep dedupN b dep) with
    ⟨k, st, hk, _, hres⟩ | ⟨_, hres⟩
  · rw [List.getElem?_drop] at hk
    rcases hres with ⟨_, hsc⟩ | ⟨g', hv, hsc⟩
    · rw [hsc] at h; cases h
    · rw [hsc] at h; cases h
      exact ⟨st, hk, (zVerdict_join hv).2⟩
  · rw [hres] at h; cases h

/-! ### counting ids -/

def ZStage.ids (st : ZStage) : List Nat := st.flatMap (·.ids)
def ZB.allIds (b : ZB) : List Nat := b.stages.flatMap ZStage.ids

theorem count_flatMap_modify {α β} [DecidableEq β] (h : α → List β) (f : α → α) (c : Nat) (x : β) :
    ∀ (l : List α) (k : Nat) (a : α), l[k]? = some a →
      (h (f a)).count x = (h a).count x + c →
      ((l.modify k f).flatMap h).count x = (l.flatMap h).count x + c := by
  intro l
  induction l with
  | nil => intro k a hk; simp at hk
  | cons y ys ih =>
    intro k a hk hc
    cases k with
    | zero =>
      simp at hk; subst hk
      simp [List.modify, List.flatMap_cons, List.count_append, hc]; omega
    | succ k =>
      simp at hk
      simp only [List.modify_succ_cons, List.flatMap_cons, List.count_append, ih k a hk hc]
      omega

theorem count_place (b : ZB) (tg : InsertionTarget) (hv : ValidTarget b tg) (id sys : Nat)
    (nr : List ResId) (d : Decl) (x : Nat) :
    (b.place tg id sys nr d).allIds.count x = b.allIds.count x + (if x = id then 1 else 0) := by
  have hsingle : [id].count x = if x = id then 1 else 0 := by
    by_cases h : x = id
    · subst h; simp
    · have : ¬ id = x := fun h' => h h'.symm
      simp [h, List.count_cons, this]
  cases tg with
  | newStage =>
    simp only [ZB.place, ZB.allIds, List.flatMap_append, List.count_append]
    simp [ZStage.ids, newGroup, hsingle]
  | stage s =>
    obtain ⟨_, st, hst⟩ := hv
    simp only [ZB.place, ZB.allIds]
    apply count_flatMap_modify ZStage.ids _ _ x b.stages s st hst
    simp [ZStage.ids, List.flatMap_append, List.count_append, newGroup, hsingle]
  | group s g =>
    obtain ⟨_, st, gk, hst, hgk⟩ := hv
    simp only [ZB.place, ZB.allIds]
    apply count_flatMap_modify ZStage.ids _ _ x b.stages s st hst
    unfold ZStage.ids
    apply count_flatMap_modify (·.ids) _ _ x st g gk hgk
    simp [ZGroup.push, List.count_append, hsingle]

/-- **C04, plan level.** `insert` adds exactly one occurrence of the new id and touches no other. -/
theorem insert_count (joinOk : ZStage → Nat → Nat → Bool) (norm : List ResId → List ResId)
    (dedupN : List Nat → List Nat) (b : ZB) (dep : List Nat) (id sys : Nat) (d : Decl) (x : Nat) :
    (b.insert joinOk norm dedupN dep id sys d).allIds.count x
      = b.allIds.count x + (if x = id then 1 else 0) :=
  count_place b _ (target_valid joinOk dedupN b dep (norm d.reads) d) id sys _ d x

/-! ### per-group bookkeeping: size, time, pairing -/

/-- what each group must satisfy besides `AccumOK` -/
structure GroupFit (D : Nat → Decl) (cap : Nat) (g : ZGroup) : Prop where
  pair : g.sys = g.ids
  size : 1 ≤ g.sys.length ∧ g.sys.length < cap
  time : g.time = (g.sys.map fun s => (D s).time).sum

def ZB.Fit (D : Nat → Decl) (cap : Nat) (b : ZB) : Prop :=
  ∀ st, st ∈ b.stages → ∀ g, g ∈ st → GroupFit D cap g

theorem place_fit {D : Nat → Decl} {cap : Nat} (hcap : 2 ≤ cap) (b : ZB) (hb : b.Fit D cap)
    (tg : InsertionTarget) (id : Nat) (nr : List ResId) (d : Decl) (hD : D id = d)
    (hjoin : ∀ s g, tg = .group s g → ∀ st gk, b.stages[s]? = some st → st[g]? = some gk →
      gk.sys.length + 1 < cap) :
    (b.place tg id id nr d).Fit D cap := by
  have hnew : GroupFit D cap (newGroup id id nr d) :=
    ⟨rfl, by simp [newGroup]; omega, by simp [newGroup, hD]⟩
  intro st' hst' g' hg'
  cases tg with
  | newStage =>
    simp only [ZB.place] at hst'
    rcases List.mem_append.mp hst' with h | h
    · exact hb st' h g' hg'
    · simp at h; subst h; simp at hg'; subst hg'; exact hnew
  | stage s =>
    simp only [ZB.place] at hst'
    rcases mem_modify hst' with h | ⟨st, hst, rfl⟩
    · exact hb st' h g' hg'
    · rcases List.mem_append.mp hg' with h | h
      · exact hb st (List.mem_of_getElem? hst) g' h
      · simp at h; subst h; exact hnew
  | group s g =>
    simp only [ZB.place] at hst'
    rcases mem_modify hst' with h | ⟨st, hst, rfl⟩
    · exact hb st' h g' hg'
    · rcases mem_modify hg' with h | ⟨gk, hgk, rfl⟩
      · exact hb st (List.mem_of_getElem? hst) g' h
      · have hfit := hb st (List.mem_of_getElem? hst) gk (List.mem_of_getElem? hgk)
        have hlt := hjoin s g rfl st gk hst hgk
        refine ⟨by simp [ZGroup.push, hfit.pair], ?_, ?_⟩
        · simp [ZGroup.push]; omega
        · simp [ZGroup.push, hfit.time, hD]

/-- **C18 (capacity) / C04, C20 (pairing).** With a join policy that refuses groups of
`cap - 1` members, no group ever reaches `cap`; the executed list equals the id table. -/
theorem insert_fit {D : Nat → Decl} {cap : Nat} (hcap : 2 ≤ cap)
    (joinOk : ZStage → Nat → Nat → Bool)
    (hpolicy : ∀ st g t, joinOk st g t = true → ∀ gk, st[g]? = some gk → gk.sys.length + 1 < cap)
    (norm : List ResId → List ResId) (dedupN : List Nat → List Nat)
    (b : ZB) (hb : b.Fit D cap) (dep : List Nat) (id : Nat) (d : Decl) (hD : D id = d) :
    (b.insert joinOk norm dedupN dep id id d).Fit D cap := by
  unfold ZB.insert
  apply place_fit hcap b hb _ id _ d hD
  intro s g htg st gk hst hgk
  obtain ⟨st', hst', hj⟩ := target_group_join joinOk dedupN b dep (norm d.reads) d s g htg
  rw [hst] at hst'; cases hst'
  exact hpolicy st g d.time hj gk hgk

theorem sum_le_of_forall_le (l : List Nat) (m : Nat) (h : ∀ x, x ∈ l → x ≤ m) : l.sum ≤ l.length * m := by
  induction l with
  | nil => simp
  | cons x xs ih =>
    have h1 := h x (by simp)
    have h2 := ih (fun y hy => h y (by simp [hy]))
    simp only [List.sum_cons, List.length_cons]
    rw [Nat.add_mul]; omega

/-- running times stay below `cap * 5`: with `cap = 5` at most 20, far from `i8::MAX` -/
theorem fit_time_le {D : Nat → Decl} {cap : Nat} {g : ZGroup} (hg : GroupFit D cap g)
    (htimes : ∀ s, (D s).time ≤ 5) : g.time ≤ (cap - 1) * 5 := by
  rw [hg.time]
  have := sum_le_of_forall_le (g.sys.map fun s => (D s).time) 5 (by
    intro x hx
    obtain ⟨s, _, rfl⟩ := List.mem_map.mp hx
    exact htimes s)
  simp at this
  have h2 := hg.size.2
  calc (g.sys.map fun s => (D s).time).sum ≤ g.sys.length * 5 := this
    _ ≤ (cap - 1) * 5 := Nat.mul_le_mul_right 5 (by omega)

/-! ### C03: the new system lands at or behind the barrier; nothing else moves -/

theorem insert_at_or_after_barrier (joinOk : ZStage → Nat → Nat → Bool) (norm : List ResId → List ResId)
    (dedupN : List Nat → List Nat) (b : ZB) (hbar : b.barrier ≤ b.stages.length)
    (dep : List Nat) (id sys : Nat) (d : Decl) :
    ∃ s, b.barrier ≤ s ∧ InStage (b.insert joinOk norm dedupN dep id sys d) s id := by
  unfold ZB.insert
  have hv := target_valid joinOk dedupN b dep (norm d.reads) d
  cases htg : b.target joinOk dedupN dep (norm d.reads) d with
  | newStage =>
    refine ⟨b.stages.length, hbar, ?_⟩
    simp only [ZB.place]
    exact ⟨[newGroup id sys (norm d.reads) d], newGroup id sys (norm d.reads) d,
      by simp, by simp, by simp [newGroup]⟩
  | stage s =>
    rw [htg] at hv
    obtain ⟨hle, st, hst⟩ := hv
    refine ⟨s, hle, ?_⟩
    simp only [ZB.place]
    exact ⟨st ++ [newGroup id sys (norm d.reads) d], newGroup id sys (norm d.reads) d,
      getElem?_modify_eq _ _ _ _ hst, by simp, by simp [newGroup]⟩
  | group s g =>
    rw [htg] at hv
    obtain ⟨hle, st, gk, hst, hgk⟩ := hv
    refine ⟨s, hle, ?_⟩
    simp only [ZB.place]
    exact ⟨st.modify g (·.push id sys (norm d.reads) d), gk.push id sys (norm d.reads) d,
      getElem?_modify_eq _ _ _ _ hst, List.mem_of_getElem? (getElem?_modify_eq _ _ _ _ hgk),
      by simp [ZGroup.push]⟩

theorem inStage_lt_length {b : ZB} {s x : Nat} (h : InStage b s x) : s < b.stages.length := by
  obtain ⟨st, _, hs, _⟩ := h
  exact (List.getElem?_eq_some_iff.mp hs).1

theorem insert_length_mono (joinOk : ZStage → Nat → Nat → Bool) (norm : List ResId → List ResId)
    (dedupN : List Nat → List Nat) (b : ZB) (dep : List Nat) (id sys : Nat) (d : Decl) :
    b.stages.length ≤ (b.insert joinOk norm dedupN dep id sys d).stages.length := by
  unfold ZB.insert
  cases b.target joinOk dedupN dep (norm d.reads) d <;> simp [ZB.place]

#print axioms insert_count
#print axioms insert_fit
end Shred
