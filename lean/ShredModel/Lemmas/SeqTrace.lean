import ShredModel.Lemmas.Exec
/-!
# Sequential dispatch: tasks without `par` have exactly one trace, and the sequential order is
one of the interleavings of the parallel task
-/
namespace Shred

/-- no `par` node -/
def Task.NoPar {ι} : Task ι → Prop
  | .nil => True
  | .leaf _ => True
  | .seq a b => a.NoPar ∧ b.NoPar
  | .par _ _ => False
  | .scope _ b => b.NoPar

theorem traces_noPar {ι} {t : Task ι} {l : List (Ev ι)} (h : Traces t l) (hn : t.NoPar) : l = t.seqTrace := by
  induction h with
  | nil => rfl
  | leaf s => rfl
  | seq _ _ iha ihb => simp only [Task.seqTrace]; rw [iha hn.1, ihb hn.2]
  | par _ _ _ _ _ => exact absurd hn (by simp [Task.NoPar])
  | scope _ ih => simp only [Task.seqTrace]; rw [ih hn]

theorem noPar_seqN {ι} (ts : List (Task ι)) (h : ∀ t, t ∈ ts → t.NoPar) : (Task.seqN ts).NoPar := by
  induction ts with
  | nil => trivial
  | cons t ts ih => exact ⟨h t (by simp), ih (fun t' ht' => h t' (by simp [ht']))⟩

theorem seqTrace_seqN {ι} (ts : List (Task ι)) : (Task.seqN ts).seqTrace = ts.flatMap Task.seqTrace := by
  induction ts with
  | nil => rfl
  | cons t ts ih => simp [Task.seqN, Task.seqTrace, ih]

theorem seqTrace_parN {ι} (ts : List (Task ι)) : (Task.parN ts).seqTrace = ts.flatMap Task.seqTrace := by
  induction ts with
  | nil => rfl
  | cons t ts ih => simp [Task.parN, Task.seqTrace, ih]

theorem shuffle_append {α} (a b : List α) : Shuffle a b (a ++ b) := by
  induction a with
  | nil =>
    induction b with
    | nil => exact .nil
    | cons y b ih => exact .right ih
  | cons x a ih => exact .left ih

/-- the sequential order is one of the interleavings -/
theorem traces_seqTrace {ι} (t : Task ι) : Traces t t.seqTrace := by
  induction t with
  | nil => exact .nil
  | leaf s => exact .leaf s
  | seq a b iha ihb => exact .seq iha ihb
  | par a b iha ihb => exact .par iha ihb (shuffle_append _ _)
  | scope s body ih => exact .scope ih

end Shred
