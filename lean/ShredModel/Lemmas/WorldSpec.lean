import ShredModel.Lemmas.WorldMap
/-!
# Outcome specifications and frames for the `World` model (C08 and C09).
-/
namespace Shred
open World

/-! ## outcome of a fetch -/

/-- the request is compatible with the state of the cell -/
def Compatible (b : Borrow) (excl : Bool) : Prop := (excl = false ∧ b ≠ .excl) ∨ (excl = true ∧ b = .free)

theorem tryBorrow_none_iff (b : Borrow) (excl : Bool) : tryBorrow b excl = none ↔ ¬ Compatible b excl := by
  cases b <;> cases excl <;> simp [tryBorrow, Compatible]

/-- under the invariant, compatibility is a statement about live guards: a shared request is
compatible iff no exclusive guard is live on the resource, an exclusive one iff no guard at all -/
theorem compatible_iff_guards {w : World} (hw : Inv w) {k : ResId} {c : Cell} (hc : w.get k = some c) (excl : Bool) :
    Compatible c.borrow excl ↔ w.nLive k true = 0 ∧ (excl = true → w.nLive k false = 0) := by
  have := hw k
  rw [hc] at this
  simp only [Option.map_some] at this
  cases hb : c.borrow <;> rw [hb] at this <;> simp only [BorrowOk] at this <;> cases excl <;>
    simp [Compatible] <;> omega

theorem fetchCore_out (w : World) (k : ResId) (excl : Bool) (f : Form) (orPanic : Bool) :
    (w.fetchCore k excl f orPanic).2 =
      match w.get k with
      | none => if orPanic then .panic .absent else .none
      | some c => if tryBorrow c.borrow excl = none then .panic (borrowPanic f c.borrow excl)
                  else .guard w.nextHandle c.token := by
  unfold fetchCore
  cases w.get k with
  | none => rfl
  | some c =>
    simp only []
    cases tryBorrow c.borrow excl <;> simp

theorem borrowPanic_ne_absent (f : Form) (b : Borrow) (x : Bool) : borrowPanic f b x ≠ .absent := by
  cases f <;> cases x <;> cases b <;> simp [borrowPanic]

theorem borrowPanic_ne_wrongType (f : Form) (b : Borrow) (x : Bool) : borrowPanic f b x ≠ .wrongType := by
  cases f <;> cases x <;> cases b <;> simp [borrowPanic]

/-- a fetch that does not answer a guard leaves the world untouched -/
theorem fetchCore_frame (w : World) (k : ResId) (excl : Bool) (f : Form) (orPanic : Bool)
    (h : ∀ hd t, (w.fetchCore k excl f orPanic).2 ≠ .guard hd t) : (w.fetchCore k excl f orPanic).1 = w :=
  fetchCore_guards_of_not_guard k excl f orPanic h

theorem fetchCore_panic_frame (w : World) (k : ResId) (excl : Bool) (f : Form) (orPanic : Bool) (p : WPanic)
    (h : (w.fetchCore k excl f orPanic).2 = .panic p) : (w.fetchCore k excl f orPanic).1 = w :=
  fetchCore_frame w k excl f orPanic (by intro hd t hc; rw [h] at hc; cases hc)

/-- what a fetch says about the abstract map -/
theorem fetchCore_out_abs (w : World) (k : ResId) (excl : Bool) (f : Form) (orPanic : Bool) :
    (∃ p, (w.fetchCore k excl f orPanic).2 = .panic p ∧ p ≠ .absent ∧ p ≠ .wrongType ∧ (w.abs k).isSome) ∨
    (match w.abs k with
      | some t => (w.fetchCore k excl f orPanic).2 = .guard w.nextHandle t
      | none => (w.fetchCore k excl f orPanic).2 = if orPanic then .panic .absent else .none) := by
  rw [fetchCore_out]
  cases hk : w.get k with
  | none => right; simp [World.abs, hk]
  | some c =>
    by_cases hb : tryBorrow c.borrow excl = none
    · left; exact ⟨borrowPanic f c.borrow excl, by simp [hb], borrowPanic_ne_absent _ _ _, borrowPanic_ne_wrongType _ _ _, by simp [World.abs, hk]⟩
    · right; simp [World.abs, hk, hb]

/-! ## dropping a guard -/

/-- **`drop_exact`**: dropping the live guard `h = (k, kind)` removes that entry from the guard
table, changes no other cell, keeps type and value of `k`'s cell, and lowers `k`'s counter by
exactly this guard's contribution -/
theorem release_exact {w : World} (hw : Inv w) {h : Nat} {g : Guard} (hf : findGuard h w.guards = some g) :
    (w.release h).guards = dropGuard h w.guards ∧
    (∀ r, r ≠ g.key → (w.release h).get r = w.get r) ∧
    (∃ c, w.get g.key = some c ∧
        (w.release h).get g.key = some { c with borrow := releaseBorrow c.borrow g.excl } ∧
        (g.excl = true → c.borrow = .excl ∧ releaseBorrow c.borrow g.excl = .free) ∧
        (g.excl = false → ∃ n, c.borrow = .shared (n + 1) ∧
            releaseBorrow c.borrow g.excl = if n = 0 then .free else .shared n)) ∧
    (w.release h).nLive g.key g.excl + 1 = w.nLive g.key g.excl ∧
    (∀ r x, (r, x) ≠ (g.key, g.excl) → (w.release h).nLive r x = w.nLive r x) := by
  have hcnt := count_dropGuard hf
  have hmem : g ∈ w.guards.map (·.2) := List.mem_map.mpr ⟨(h, g), findGuard_mem hf, rfl⟩
  have hpos : 0 < (w.guards.map (·.2)).count g := List.count_pos_iff.mpr hmem
  have hgk := hw g.key
  have hge : g = ⟨g.key, g.excl⟩ := rfl
  cases hg : w.get g.key with
  | none =>
    exfalso
    rw [hg] at hgk
    simp only [Option.map_none, BorrowOk, World.nLive] at hgk
    cases hx : g.excl <;> rw [hx] at hge <;> rw [hge] at hpos <;> omega
  | some c =>
    rw [release_live hf hg]
    refine ⟨rfl, ?_, ⟨c, rfl, by simp [get_def], ?_, ?_⟩, ?_, ?_⟩
    · intro r hr; simp [get_def, lookup_setCell_other _ _ hr]
    · intro hx
      rw [hg] at hgk
      simp only [Option.map_some, World.nLive] at hgk
      rw [hx] at hge; rw [hge] at hpos
      cases hcb : c.borrow <;> rw [hcb] at hgk <;> simp only [BorrowOk] at hgk
      · omega
      · omega
      · exact ⟨rfl, by rw [hx]; rfl⟩
    · intro hx
      rw [hg] at hgk
      simp only [Option.map_some, World.nLive] at hgk
      rw [hx] at hge; rw [hge] at hpos
      cases hcb : c.borrow <;> rw [hcb] at hgk <;> simp only [BorrowOk] at hgk
      · omega
      · rename_i n
        match n, hgk with
        | 0, hgk => omega
        | 1, _ => exact ⟨0, rfl, by rw [hx]; rfl⟩
        | n + 2, _ => exact ⟨n + 1, rfl, by rw [hx]; rfl⟩
      · omega
    · have := hcnt g
      simp only [if_true] at this
      show ((dropGuard h w.guards).map (·.2)).count ⟨g.key, g.excl⟩ + 1 = (w.guards.map (·.2)).count ⟨g.key, g.excl⟩
      exact this
    · intro r x hne
      have := hcnt ⟨r, x⟩
      have hn : g ≠ ⟨r, x⟩ := by
        intro he; apply hne; rw [he]
      rw [if_neg hn] at this
      show ((dropGuard h w.guards).map (·.2)).count ⟨r, x⟩ = (w.guards.map (·.2)).count ⟨r, x⟩
      omega

/-! ## frames of panicking operations -/

theorem metaNext_panic_frame (w : World) (tys : List Nat) (idx : Nat) (excl : Bool) (p : WPanic)
    (h : (w.metaNext tys idx excl).2.1 = .panic p) : (w.metaNext tys idx excl).1 = w := by
  unfold metaNext at h ⊢
  rcases metaScan_cases w excl (tys.drop idx) idx with ⟨h1, _⟩ | ⟨_, ty, _, _, _, _, h1, h2, _⟩
  · exact h1
  · rw [h1]; rw [h2] at h; exact fetchCore_panic_frame _ _ _ _ _ p h

theorem cloneGuard_panic_frame (w : World) (h : Nat) (p : WPanic) (hp : (w.cloneGuard h).2 = .panic p) :
    (w.cloneGuard h).1 = w := by
  cases hf : findGuard h w.guards with
  | none => simp [cloneGuard, hf]
  | some g =>
    by_cases hx : g.excl = true
    · simp [cloneGuard, hf, hx]
    · simp only [cloneGuard, hf, hx] at hp ⊢
      exact fetchCore_panic_frame _ _ _ _ _ p hp

theorem entryScoped_out_cases (w : World) (ty t : Nat) (bv : Bool) (p : WPanic)
    (hp : (w.entryScoped ty t bv).2 = .panic p) :
    (w.entryScoped ty t bv).1.cells = w.cells ∧ (w.entryScoped ty t bv).1.guards = w.guards := by
  unfold entryScoped entryOrInsert at hp ⊢
  simp only [] at hp ⊢
  cases hk : w.get ⟨ty, 0⟩ with
  | some c =>
    simp only [hk] at hp ⊢
    generalize hw0 : (if bv = true then ({ w with created := w.created ++ [t], dropped := w.dropped ++ [t] } : World) else w) = w0 at hp ⊢
    have hc0 : w0.cells = w.cells ∧ w0.guards = w.guards := by
      rw [← hw0]; cases bv <;> exact ⟨rfl, rfl⟩
    rcases fetchCore_cases w0 ⟨ty, 0⟩ true .byId false with ⟨h1, _⟩ | ⟨c', b', _, _, he⟩
    · have : w0.fetchCore ⟨ty, 0⟩ true .byId false = (w0, (w0.fetchCore ⟨ty, 0⟩ true .byId false).2) := Prod.ext h1 rfl
      rw [this] at hp ⊢
      generalize (w0.fetchCore ⟨ty, 0⟩ true .byId false).2 = o at hp ⊢
      cases o <;> first | exact hc0 | cases hp
    · rw [he] at hp; cases hp
  | none =>
    simp only [hk] at hp ⊢
    exfalso
    rw [fetchCore_ok (c := ⟨ty, t, .free⟩) (b' := .excl) _ _ _ _ _ (by simp [get_def]) rfl] at hp
    cases hp

theorem insertFused_out (w : World) (a : Nat) (k : ResId) (t : Nat) :
    (w.insertFused a k t).2 =
      if a ≠ k.ty then .panic .wrongType else if (w.abs k).isSome then .unwound .drop else .unit := by
  unfold insertFused
  have ho := insertById_out w a k t
  generalize w.insertById a k t = r at ho
  obtain ⟨w', o⟩ := r
  simp only [] at ho
  by_cases hx : a ≠ k.ty
  · rw [if_pos hx] at ho ⊢; subst ho; cases w.get k <;> rfl
  · rw [if_neg hx] at ho ⊢; subst ho
    cases hk : w.get k <;> simp [World.abs, hk]

/-- the answer of an `entry` call whose caller panics while holding the guard: what the plain call
answers, except that a returned guard becomes the caller's panic -/
theorem entryFault_guardHeld_panic (w : World) (ty t : Nat) (bv : Bool) (p : WPanic)
    (hp : (w.entryFault ty t (.guardHeld bv)).2 = .panic p) : (w.entryScoped ty t bv).2 = .panic p := by
  simp only [entryFault, entryScoped] at hp ⊢
  generalize w.entryOrInsert ty t bv = r at hp ⊢
  obtain ⟨w', o⟩ := r
  cases o <;> first | exact hp | cases hp

theorem entryFault_panic_frame (w : World) (ty t : Nat) (f : EntryFault) (p : WPanic)
    (hp : (w.entryFault ty t f).2 = .panic p) :
    (w.entryFault ty t f).1.cells = w.cells ∧ (w.entryFault ty t f).1.guards = w.guards := by
  cases f with
  | guardHeld bv =>
    rw [entryFault_guardHeld_fst]
    exact entryScoped_out_cases w ty t bv p (entryFault_guardHeld_panic w ty t bv p hp)
  | valueDrop =>
    unfold entryFault at hp ⊢
    cases hk : w.get ⟨ty, 0⟩ with
    | some c => simp only [hk] at hp; cases hp
    | none => simp only [hk] at hp ⊢; exact entryScoped_out_cases w ty t true p hp
  | closure =>
    unfold entryFault at hp ⊢
    cases hk : w.get ⟨ty, 0⟩ with
    | some c => simp only [hk] at hp ⊢; exact entryScoped_out_cases w ty t false p hp
    | none => simp only [hk] at hp; cases hp

/-- **`panic_frame`**: an operation that panics leaves the resource table and the guard table
exactly as they were. (`exec` is `setup` followed by the fetch: see `exec_panic_frame`.) -/
theorem step_panic_frame {w : World} (hw : Inv w) (hh : HandlesOk w) (op : Op) (p : WPanic)
    (hne : ∀ items toks, op ≠ .exec items toks ∧ op ≠ .execFault items toks) (hp : (w.step op).2 = .panic p) :
    (w.step op).1.cells = w.cells ∧ (w.step op).1.guards = w.guards := by
  cases op with
  | insert ty tok =>
    simp only [step, World.insert, insertById] at hp ⊢
    by_cases hx : ty ≠ (⟨ty, 0⟩ : ResId).ty
    · rw [if_pos hx]; exact ⟨rfl, rfl⟩
    · rw [if_neg hx] at hp; cases hp
  | insertById a k tok =>
    simp only [step, insertById] at hp ⊢
    by_cases hx : a ≠ k.ty
    · rw [if_pos hx]; exact ⟨rfl, rfl⟩
    · rw [if_neg hx] at hp; cases hp
  | remove ty =>
    simp only [step, World.remove, removeById] at hp ⊢
    by_cases hx : ty ≠ (⟨ty, 0⟩ : ResId).ty
    · rw [if_pos hx]; exact ⟨rfl, rfl⟩
    · rw [if_neg hx] at hp; split at hp <;> cases hp
  | removeById a k =>
    simp only [step, removeById] at hp ⊢
    by_cases hx : a ≠ k.ty
    · rw [if_pos hx]; exact ⟨rfl, rfl⟩
    · rw [if_neg hx] at hp; split at hp <;> cases hp
  | entry ty tok bv => exact entryScoped_out_cases w ty tok bv p hp
  | hasValue ty => exact ⟨rfl, rfl⟩
  | hasValueRaw k => exact ⟨rfl, rfl⟩
  | getMut ty => exact ⟨rfl, rfl⟩
  | getMutRaw k => exact ⟨rfl, rfl⟩
  | setup items toks => cases hp
  | exec items toks => exact absurd rfl (hne items toks).1
  | fetch ty => have := fetchCore_panic_frame _ _ _ _ _ p hp; exact ⟨by rw [show (w.step (.fetch ty)).1 = _ from this], by rw [show (w.step (.fetch ty)).1 = _ from this]⟩
  | fetchMut ty => have := fetchCore_panic_frame _ _ _ _ _ p hp; exact ⟨by rw [show (w.step (.fetchMut ty)).1 = _ from this], by rw [show (w.step (.fetchMut ty)).1 = _ from this]⟩
  | tryFetch ty => have := fetchCore_panic_frame _ _ _ _ _ p hp; exact ⟨by rw [show (w.step (.tryFetch ty)).1 = _ from this], by rw [show (w.step (.tryFetch ty)).1 = _ from this]⟩
  | tryFetchMut ty => have := fetchCore_panic_frame _ _ _ _ _ p hp; exact ⟨by rw [show (w.step (.tryFetchMut ty)).1 = _ from this], by rw [show (w.step (.tryFetchMut ty)).1 = _ from this]⟩
  | tryFetchById a k =>
    simp only [step, tryFetchById] at hp ⊢
    split
    · exact ⟨rfl, rfl⟩
    · rename_i hx
      simp only [hx, if_false] at hp
      rw [fetchCore_panic_frame _ _ _ _ _ p hp]; exact ⟨rfl, rfl⟩
  | tryFetchMutById a k =>
    simp only [step, tryFetchMutById] at hp ⊢
    split
    · exact ⟨rfl, rfl⟩
    · rename_i hx
      simp only [hx, if_false] at hp
      rw [fetchCore_panic_frame _ _ _ _ _ p hp]; exact ⟨rfl, rfl⟩
  | systemData items => exact sysData_panic_frame hw hh items p hp
  | metaNext tys idx x =>
    have := metaNext_panic_frame w tys idx x p hp
    exact ⟨by rw [show (w.step (.metaNext tys idx x)).1 = _ from this], by rw [show (w.step (.metaNext tys idx x)).1 = _ from this]⟩
  | clone h =>
    have := cloneGuard_panic_frame w h p hp
    exact ⟨by rw [show (w.step (.clone h)).1 = _ from this], by rw [show (w.step (.clone h)).1 = _ from this]⟩
  | drop h => cases hp
  | scope tys takes e => simp [step, scope] at hp
  | insertFused a k tok =>
    simp only [step] at hp ⊢
    rw [insertFused_out] at hp
    rw [insertFused_fst]
    by_cases hx : a ≠ k.ty
    · simp only [insertById, if_pos hx]; exact ⟨trivial, trivial⟩
    · rw [if_neg hx] at hp; split at hp <;> cases hp
  | entryFault ty tok f => exact entryFault_panic_frame w ty tok f p hp
  | execFault items toks => exact absurd rfl (hne items toks).2

/-- `exec` that panics (in its fetch) leaves the world as `setup` made it, with no guard alive -/
theorem exec_panic_frame {w : World} (hw : Inv w) (hg : w.guards = []) (items : List SdItem) (toks : List Nat)
    (p : WPanic) (hp : (w.exec items toks).2 = .panic p) :
    (w.exec items toks).1.cells = (w.setup items toks).1.cells ∧ (w.exec items toks).1.guards = [] := by
  have h1 := setup_inv hw hg items toks
  have h2 := sysData_panic_frame h1.1 (handles_of_nil h1.2) items p
  unfold exec at hp ⊢
  generalize sysData _ items = r at h2 hp ⊢
  obtain ⟨w2, o⟩ := r
  cases o with
  | data fs => cases hp
  | panic p' =>
    simp only [] at hp; cases hp
    obtain ⟨e1, e2⟩ := h2 rfl
    exact ⟨e1, e2.trans h1.2⟩
  | unit => cases hp
  | bool _ => cases hp
  | guard _ _ => cases hp
  | none => cases hp
  | value _ => cases hp
  | seen _ => cases hp
  | scopeDone _ _ => cases hp
  | unwound _ => cases hp

/-- the same when the closure panics: either the fetch was refused (then see `exec_panic_frame`) or
the closure was entered and unwinding dropped its data: no guard is left either way -/
theorem execFault_spec (w : World) (items : List SdItem) (toks : List Nat) :
    (w.execFault items toks).1 = (w.exec items toks).1 ∧
    (((w.execFault items toks).2 = .unwound .closure ∧ ∃ fs, (w.exec items toks).2 = .data fs) ∨
     (∃ p, (w.execFault items toks).2 = .panic p ∧ (w.exec items toks).2 = .panic p)) := by
  refine ⟨execFault_fst w items toks, ?_⟩
  have h1 := sysData_out (w.setup items toks).1 items
  unfold execFault exec
  generalize sysData _ items = r at h1
  obtain ⟨w2, o⟩ := r
  rcases h1 with ⟨fs, h⟩ | ⟨p, h⟩
  · simp only [] at h; subst h; left; exact ⟨rfl, fs, rfl⟩
  · simp only [] at h; subst h; right; exact ⟨p, rfl, rfl⟩

/-! ## the abstract map under `setup` -/

/-- `setup` on the abstract map -/
def absSetup (m : ResId → Option Nat) : List SdItem → List Nat → (ResId → Option Nat)
  | [], _ => m
  | it :: rest, toks =>
    if it.dflt && !it.opt then
      match m ⟨it.ty, 0⟩, toks with
      | some _, _ => absSetup m rest toks
      | none, t :: toks' => absSetup (upd m ⟨it.ty, 0⟩ (some t)) rest toks'
      | none, [] => absSetup m rest []
    else absSetup m rest toks

theorem setup_abs (w : World) (items : List SdItem) (toks : List Nat) :
    (w.setup items toks).1.abs = absSetup w.abs items toks := by
  induction items generalizing w toks with
  | nil => rfl
  | cons it rest ih =>
    unfold World.setup absSetup
    by_cases hd : (it.dflt && !it.opt) = true
    · rw [if_pos hd, if_pos hd]
      cases hk : w.get ⟨it.ty, 0⟩ with
      | some c =>
        have ha : w.abs ⟨it.ty, 0⟩ = some c.token := by simp [World.abs, hk]
        simp only [ha]
        rw [ih, entryScoped_abs, ha]; simp
      | none =>
        have ha : w.abs ⟨it.ty, 0⟩ = none := by simp [World.abs, hk]
        simp only [ha]
        cases toks with
        | nil => exact ih _ _
        | cons t toks' =>
          simp only []
          rw [ih, entryScoped_abs, ha]; simp
    · rw [if_neg hd, if_neg hd]; exact ih _ _

/-- the abstract transition function: what each operation does to the map -/
def absStep (m : ResId → Option Nat) : Op → (ResId → Option Nat)
  | .insert ty tok => upd m ⟨ty, 0⟩ (some tok)
  | .insertById a k tok => if a ≠ k.ty then m else upd m k (some tok)
  | .remove ty => upd m ⟨ty, 0⟩ none
  | .removeById a k => if a ≠ k.ty then m else upd m k none
  | .entry ty tok _ => if (m ⟨ty, 0⟩).isSome then m else upd m ⟨ty, 0⟩ (some tok)
  | .setup items toks => absSetup m items toks
  | .exec items toks => absSetup m items toks
  | .insertFused a k tok => if a ≠ k.ty then m else upd m k (some tok)
  | .entryFault ty tok (.guardHeld _) => if (m ⟨ty, 0⟩).isSome then m else upd m ⟨ty, 0⟩ (some tok)
  | .entryFault ty tok .valueDrop => if (m ⟨ty, 0⟩).isSome then m else upd m ⟨ty, 0⟩ (some tok)
  | .execFault items toks => absSetup m items toks
  | _ => m

/-- **`refines`, state part**: every operation commutes with the abstraction -/
theorem step_abs (w : World) (op : Op) : (w.step op).1.abs = absStep w.abs op := by
  cases op with
  | insert ty tok => simp [step, World.insert, insertById_abs, absStep]
  | insertById a k tok => simp only [step, insertById_abs, absStep]
  | remove ty => simp [step, World.remove, removeById_abs, absStep]
  | removeById a k => simp only [step, removeById_abs, absStep]
  | entry ty tok bv => simp only [step, entryScoped_abs, absStep]
  | setup items toks => simp only [step, setup_abs, absStep]
  | exec items toks => simp only [step, absStep]; rw [(exec_same w items toks).abs, setup_abs]
  | hasValue ty => rfl
  | hasValueRaw k => rfl
  | getMut ty => rfl
  | getMutRaw k => rfl
  | fetch ty => exact (step_same_of_not_mut w _ rfl).abs
  | fetchMut ty => exact (step_same_of_not_mut w _ rfl).abs
  | tryFetch ty => exact (step_same_of_not_mut w _ rfl).abs
  | tryFetchMut ty => exact (step_same_of_not_mut w _ rfl).abs
  | tryFetchById a k => exact (step_same_of_not_mut w _ rfl).abs
  | tryFetchMutById a k => exact (step_same_of_not_mut w _ rfl).abs
  | systemData items => exact (step_same_of_not_mut w _ rfl).abs
  | metaNext tys idx x => exact (step_same_of_not_mut w _ rfl).abs
  | clone h => exact (step_same_of_not_mut w _ rfl).abs
  | drop h => exact (step_same_of_not_mut w _ rfl).abs
  | scope tys takes e => exact (step_same_of_not_mut w _ rfl).abs
  | insertFused a k tok => simp only [step, absStep]; rw [insertFused_fst, insertById_abs]
  | entryFault ty tok f =>
    cases f with
    | guardHeld bv => simp only [step, absStep]; rw [entryFault_guardHeld_fst, entryScoped_abs]
    | valueDrop =>
      simp only [step, absStep, entryFault]
      cases hk : w.get ⟨ty, 0⟩ with
      | some c => simp [World.abs, hk]; rfl
      | none =>
        simp only []
        rw [entryScoped_abs]
    | closure =>
      simp only [step, absStep, entryFault]
      cases hk : w.get ⟨ty, 0⟩ with
      | some c =>
        simp only []
        rw [entryScoped_abs]; simp [World.abs, hk]
      | none => rfl
  | execFault items toks =>
    simp only [step, absStep]; rw [execFault_fst, (exec_same w items toks).abs, setup_abs]

/-- field by field: a `Some` field shows the value the map stores under the item's id, a `None`
field belongs to an `Option` item whose resource is absent -/
def FieldsAgree (m : ResId → Option Nat) : List SdItem → List (Option (Nat × Nat)) → Prop
  | [], [] => True
  | it :: items, f :: fs =>
    (match f with
      | some (_, t) => m ⟨it.ty, 0⟩ = some t
      | none => m ⟨it.ty, 0⟩ = none ∧ it.opt = true) ∧ FieldsAgree m items fs
  | _, _ => False

/-- the fields of a composite fetch show exactly the stored values; `None` fields are the absent
optional ones -/
theorem sysData_fields (w : World) (items : List SdItem) (fs : List (Option (Nat × Nat)))
    (h : (w.sysData items).2 = .data fs) :
    FieldsAgree w.abs items fs := by
  induction items generalizing w fs with
  | nil => simp [sysData] at h; subst h; exact True.intro
  | cons it rest ih =>
    rcases sysData_cons w it rest with ⟨_, hk, ho, he⟩ | ⟨p, _, he⟩ | ⟨c, b', hc, hb, he⟩
    · rw [he] at h
      have := ih w
      generalize w.sysData rest = r at this h
      obtain ⟨w2, o⟩ := r
      cases o <;> simp at h
      subst h
      exact ⟨⟨by simp [World.abs, hk], ho⟩, this _ rfl⟩
    · rw [he] at h; cases h
    · rw [he] at h
      have hs : SameData w _ := sameData_setBorrow hc b' (w.guards ++ [(w.nextHandle, ⟨⟨it.ty, 0⟩, it.write⟩)]) (w.nextHandle + 1)
      generalize hr : sysData _ rest = r at h
      obtain ⟨w2, o⟩ := r
      cases o <;> simp at h
      subst h
      have := ih _ _ (congrArg Prod.snd hr)
      rw [hs.abs] at this
      exact ⟨by simp [World.abs, hc], this⟩

/-! ## created tokens -/

theorem entryScoped_created (w : World) (ty t : Nat) (bv : Bool) :
    (w.entryScoped ty t bv).1.created =
      if bv = true ∨ w.get ⟨ty, 0⟩ = none then w.created ++ [t] else w.created := by
  rw [(entryScoped_fst w ty t bv).created]
  unfold entryOrInsert
  simp only []
  cases hk : w.get ⟨ty, 0⟩ with
  | some c =>
    simp only []
    rw [(fetchCore_same _ _ _ _ _).created]
    cases bv <;> simp
  | none =>
    simp only []
    rw [(fetchCore_same _ _ _ _ _).created]
    simp

theorem setup_created (w : World) (items : List SdItem) (toks : List Nat) (x : Nat) :
    (w.setup items toks).1.created.count x + (w.setup items toks).2.count x ≤ w.created.count x + toks.count x := by
  induction items generalizing w toks with
  | nil => simp [World.setup]
  | cons it rest ih =>
    unfold World.setup
    by_cases hd : (it.dflt && !it.opt) = true
    · rw [if_pos hd]
      cases hk : w.get ⟨it.ty, 0⟩ with
      | some c =>
        have := ih (w.entryScoped it.ty 0 false).1 toks
        rw [entryScoped_created] at this
        simpa [hk] using this
      | none =>
        cases toks with
        | nil => exact ih _ _
        | cons t toks' =>
          have := ih (w.entryScoped it.ty t false).1 toks'
          rw [entryScoped_created] at this
          simp only [hk, or_true, if_true, List.count_append, List.count_cons, List.count_nil] at this ⊢
          omega
    · rw [if_neg hd]; exact ih _ _

/-- an operation creates at most the values whose tokens it was given -/
theorem step_created (w : World) (op : Op) (x : Nat) :
    (w.step op).1.created.count x ≤ w.created.count x + op.tokens.count x := by
  cases hmut : op.isMut with
  | false =>
    rw [(step_same_of_not_mut w op hmut).created]; omega
  | true =>
    cases op with
    | insert ty tok =>
      simp only [step, World.insert, insertById, Op.tokens]
      split <;> simp [List.count_append]
    | insertById a k tok =>
      simp only [step, insertById, Op.tokens]
      split <;> simp [List.count_append]
    | remove ty =>
      simp only [step, World.remove, removeById, Op.tokens]
      split
      · simp
      · split <;> simp
    | removeById a k =>
      simp only [step, removeById, Op.tokens]
      split
      · simp
      · split <;> simp
    | entry ty tok bv =>
      simp only [step, Op.tokens, entryScoped_created]
      split <;> simp [List.count_append]
    | getMut ty => simp [step, World.getMut, getMutRaw]
    | getMutRaw k => simp [step, getMutRaw]
    | setup items toks =>
      have := setup_created w items toks x
      simp only [step, Op.tokens]; omega
    | exec items toks =>
      have := setup_created w items toks x
      simp only [step, Op.tokens]
      rw [(exec_same w items toks).created]; omega
    | hasValue _ => cases hmut
    | hasValueRaw _ => cases hmut
    | fetch _ => cases hmut
    | fetchMut _ => cases hmut
    | tryFetch _ => cases hmut
    | tryFetchMut _ => cases hmut
    | tryFetchById _ _ => cases hmut
    | tryFetchMutById _ _ => cases hmut
    | systemData _ => cases hmut
    | metaNext _ _ _ => cases hmut
    | clone _ => cases hmut
    | drop _ => cases hmut
    | scope _ _ _ => cases hmut
    | insertFused a k tok =>
      simp only [step, Op.tokens]
      rw [insertFused_fst]
      simp only [insertById]
      split <;> simp [List.count_append]
    | entryFault ty tok f =>
      cases f with
      | guardHeld bv =>
        simp only [step, Op.tokens]
        rw [entryFault_guardHeld_fst, entryScoped_created]
        split <;> simp [List.count_append]
      | valueDrop =>
        simp only [step, Op.tokens, entryFault]
        cases hk : w.get ⟨ty, 0⟩ with
        | some c => simp [List.count_append]
        | none =>
          simp only []
          rw [entryScoped_created]
          simp [List.count_append]
      | closure =>
        simp only [step, Op.tokens, entryFault]
        cases hk : w.get ⟨ty, 0⟩ with
        | some c =>
          simp only []
          rw [entryScoped_created]
          simp [hk]
        | none => simp
    | execFault items toks =>
      have := setup_created w items toks x
      simp only [step, Op.tokens]
      rw [execFault_fst, (exec_same w items toks).created]; omega

theorem run_created (w : World) (ops : List Op) (x : Nat) :
    (w.run ops).created.count x ≤ w.created.count x + (ops.flatMap Op.tokens).count x := by
  induction ops generalizing w with
  | nil => simp [run]
  | cons op ops ih =>
    have h1 := ih (w.step op).1
    have h2 := step_created w op x
    simp only [run, List.flatMap_cons, List.count_append] at h1 ⊢
    omega

/-! ## what every operation answers, in terms of the abstract map -/

/-- a fetch of `k` answers a borrow panic (only if the resource is present), or exactly what the
map says: a guard showing the stored value, or `None` / the "does not exist" panic -/
def FetchOk (m : ResId → Option Nat) (k : ResId) (orPanic : Bool) (o : Out) : Prop :=
  (∃ p, o = .panic p ∧ p ≠ .absent ∧ p ≠ .wrongType ∧ (m k).isSome) ∨
  (match m k with
    | some t => ∃ h, o = .guard h t
    | none => o = if orPanic then .panic .absent else .none)

/-- the answer of every operation as a function of the abstract map alone -/
def OutOk (m : ResId → Option Nat) : Op → Out → Prop
  | .insert _ _, o => o = .unit
  | .insertById a k _, o => o = if a ≠ k.ty then .panic .wrongType else .unit
  | .remove ty, o => o = match m ⟨ty, 0⟩ with | some t => .value t | none => .none
  | .removeById a k, o => o = if a ≠ k.ty then .panic .wrongType else
      match m k with | some t => .value t | none => .none
  | .entry ty tok _, o => o = .seen ((m ⟨ty, 0⟩).getD tok)
  | .hasValue ty, o => o = .bool (m ⟨ty, 0⟩).isSome
  | .hasValueRaw k, o => o = .bool (m k).isSome
  | .getMut ty, o => o = match m ⟨ty, 0⟩ with | some t => .seen t | none => .none
  | .getMutRaw k, o => o = match m k with | some t => .seen t | none => .none
  | .setup _ _, o => o = .unit
  | .exec items toks, o => (∃ p, o = .panic p) ∨ ∃ fs, o = .data fs ∧ FieldsAgree (absSetup m items toks) items fs
  | .fetch ty, o => FetchOk m ⟨ty, 0⟩ true o
  | .fetchMut ty, o => FetchOk m ⟨ty, 0⟩ true o
  | .tryFetch ty, o => FetchOk m ⟨ty, 0⟩ false o
  | .tryFetchMut ty, o => FetchOk m ⟨ty, 0⟩ false o
  | .tryFetchById a k, o => if a ≠ k.ty then o = .panic .wrongType else FetchOk m k false o
  | .tryFetchMutById a k, o => if a ≠ k.ty then o = .panic .wrongType else FetchOk m k false o
  | .systemData items, o => (∃ p, o = .panic p) ∨ ∃ fs, o = .data fs ∧ FieldsAgree m items fs
  | .metaNext tys idx _, o =>
      (o = .none ∧ ∀ ty ∈ tys.drop idx, m ⟨ty, 0⟩ = none) ∨
      (∃ pre ty post, tys.drop idx = pre ++ ty :: post ∧ (∀ t ∈ pre, m ⟨t, 0⟩ = none) ∧
        (m ⟨ty, 0⟩).isSome ∧ FetchOk m ⟨ty, 0⟩ false o)
  | .clone _, _ => True
  | .drop _, o => o = .unit
  | .scope _ _ _, o => ∃ seen fin, o = .scopeDone seen fin
  | .insertFused a k _, o => o = if a ≠ k.ty then .panic .wrongType else
      if (m k).isSome then .unwound .drop else .unit
  | .entryFault _ _ (.guardHeld _), o => o = .unwound .closure
  | .entryFault ty tok .valueDrop, o => o = if (m ⟨ty, 0⟩).isSome then .unwound .drop else .seen tok
  | .entryFault ty _ .closure, o => o = match m ⟨ty, 0⟩ with | some t => .seen t | none => .unwound .closure
  | .execFault _ _, o => (∃ p, o = .panic p) ∨ o = .unwound .closure

/-- with no live guard the `entry` call itself cannot fail, so a caller that panics while holding
its guard is what unwinds it -/
theorem entryFault_guardHeld_out {w : World} (hw : Inv w) (hg : w.guards = []) (ty t : Nat) (bv : Bool) :
    (w.entryFault ty t (.guardHeld bv)).2 = .unwound .closure := by
  rw [inv_of_no_guards hg] at hw
  simp only [entryFault, entryOrInsert]
  cases hk : w.get ⟨ty, 0⟩ with
  | some c =>
    have hb : tryBorrow c.borrow true = some .excl := by rw [hw _ c hk]; rfl
    cases bv
    · simp only [Bool.false_eq_true, if_false]
      rw [fetchCore_ok _ _ _ _ _ hk hb]
    · simp only [if_true]
      rw [fetchCore_ok (c := c) _ _ _ _ _ (by exact hk) hb]
  | none =>
    simp only []
    rw [fetchCore_ok (c := ⟨ty, t, .free⟩) (b' := .excl) _ _ _ _ _ (by simp [get_def]) rfl]

theorem fetchCore_fetchOk (w : World) (k : ResId) (excl : Bool) (f : Form) (orPanic : Bool) :
    FetchOk w.abs k orPanic (w.fetchCore k excl f orPanic).2 := by
  rcases fetchCore_out_abs w k excl f orPanic with h | h
  · exact Or.inl h
  · right
    cases hm : w.abs k with
    | none => rw [hm] at h; exact h
    | some t => rw [hm] at h; exact ⟨_, h⟩

theorem abs_none_iff (w : World) (k : ResId) : w.abs k = none ↔ w.get k = none := by
  simp [World.abs]

/-- **`refines`, answer part** -/
theorem step_out {w : World} (hw : Inv w) (op : Op) (hl : op.isMut = true → w.guards = []) :
    OutOk w.abs op (w.step op).2 := by
  cases op with
  | insert ty tok => simp [OutOk, step, World.insert, insertById_out]
  | insertById a k tok => simp only [OutOk, step, insertById_out]
  | remove ty =>
    simp [OutOk, step, World.remove, removeById_out]
    cases w.abs ⟨ty, 0⟩ <;> rfl
  | removeById a k =>
    simp only [OutOk, step, removeById_out]
    split
    · rfl
    · cases w.abs k <;> rfl
  | entry ty tok bv => exact entryScoped_out hw (hl rfl) ty tok bv
  | hasValue ty => simp [OutOk, step, World.hasValue, hasValueRaw, World.abs]
  | hasValueRaw k => simp [OutOk, step, hasValueRaw, World.abs]
  | getMut ty =>
    simp only [OutOk, step, World.getMut, getMutRaw, World.abs]
    cases w.get ⟨ty, 0⟩ <;> rfl
  | getMutRaw k =>
    simp only [OutOk, step, getMutRaw, World.abs]
    cases w.get k <;> rfl
  | setup items toks => rfl
  | exec items toks =>
    simp only [OutOk, step]
    have h1 := sysData_out (w.setup items toks).1 items
    have h2 := sysData_fields (w.setup items toks).1 items
    rw [setup_abs] at h2
    unfold exec
    generalize sysData _ items = r at h1 h2
    obtain ⟨w2, o⟩ := r
    rcases h1 with ⟨fs, h⟩ | ⟨p, h⟩
    · simp only [] at h; subst h
      right; exact ⟨fs, rfl, h2 fs rfl⟩
    · simp only [] at h; subst h
      left; exact ⟨p, rfl⟩
  | fetch ty => exact fetchCore_fetchOk _ _ _ _ _
  | fetchMut ty => exact fetchCore_fetchOk _ _ _ _ _
  | tryFetch ty => exact fetchCore_fetchOk _ _ _ _ _
  | tryFetchMut ty => exact fetchCore_fetchOk _ _ _ _ _
  | tryFetchById a k =>
    simp only [OutOk, step, tryFetchById]
    split
    · rfl
    · exact fetchCore_fetchOk _ _ _ _ _
  | tryFetchMutById a k =>
    simp only [OutOk, step, tryFetchMutById]
    split
    · rfl
    · exact fetchCore_fetchOk _ _ _ _ _
  | systemData items =>
    simp only [OutOk, step]
    rcases sysData_out w items with ⟨fs, h⟩ | ⟨p, h⟩
    · right; exact ⟨fs, h, sysData_fields w items fs h⟩
    · left; exact ⟨p, h⟩
  | metaNext tys idx x =>
    simp only [OutOk, step, metaNext]
    rcases metaScan_cases w x (tys.drop idx) idx with ⟨_, h2, h3⟩ | ⟨pre, ty, post, he, hpre, hty, _, h2, _⟩
    · left; exact ⟨h2, fun ty hty => (abs_none_iff _ _).mpr (h3 ty hty)⟩
    · right
      refine ⟨pre, ty, post, he, fun t ht => (abs_none_iff _ _).mpr (hpre t ht), ?_, ?_⟩
      · cases hk : w.get ⟨ty, 0⟩ with
        | none => rw [hk] at hty; cases hty
        | some c => simp [World.abs, hk]
      · rw [h2]; exact fetchCore_fetchOk _ _ _ _ _
  | clone h => exact True.intro
  | drop h => rfl
  | scope tys takes e => exact ⟨_, _, rfl⟩
  | insertFused a k tok => simp only [OutOk, step, insertFused_out]
  | entryFault ty tok f =>
    have hg := hl rfl
    cases f with
    | guardHeld bv => exact entryFault_guardHeld_out hw hg ty tok bv
    | valueDrop =>
      simp only [OutOk, step, entryFault]
      cases hk : w.get ⟨ty, 0⟩ with
      | some c => simp [World.abs, hk]
      | none =>
        simp only []
        rw [entryScoped_out hw hg]; simp [World.abs, hk]
    | closure =>
      simp only [OutOk, step, entryFault]
      cases hk : w.get ⟨ty, 0⟩ with
      | some c =>
        simp only []
        rw [entryScoped_out hw hg]; simp [World.abs, hk]
      | none => simp [World.abs, hk]
  | execFault items toks =>
    simp only [OutOk, step]
    rcases (execFault_spec w items toks).2 with ⟨h, _⟩ | ⟨p, h, _⟩
    · right; exact h
    · left; exact ⟨p, h⟩

/-! ## consequences of conservation -/

theorem linear_once {w : World} (hl : Linear w) (hn : w.created.Nodup) (t : Nat) (ht : t ∈ w.created) :
    w.tokens.count t + w.returned.count t + w.dropped.count t = 1 := by
  rw [hl t, hn.count, if_pos ht]

theorem linear_none {w : World} (hl : Linear w) (t : Nat) (ht : t ∉ w.created) :
    t ∉ w.tokens ∧ t ∉ w.returned ∧ t ∉ w.dropped := by
  have := hl t
  rw [List.count_eq_zero.mpr ht] at this
  refine ⟨?_, ?_, ?_⟩ <;> (apply List.count_eq_zero.mp; omega)

theorem linear_dropped_nodup {w : World} (hl : Linear w) (hn : w.created.Nodup) : w.dropped.Nodup := by
  rw [List.nodup_iff_count]
  intro t
  have := hl t
  have := List.nodup_iff_count.mp hn t
  omega

theorem dropWorld_linear {w : World} (hl : Linear w) : Linear w.dropWorld ∧ w.dropWorld.tokens = [] := by
  refine ⟨?_, rfl⟩
  intro t
  have := hl t
  simp only [dropWorld, World.tokens, List.map_nil, List.count_nil, List.count_append] at this ⊢
  omega

theorem run_created_nodup {w : World} (ops : List Op) (hn : (w.created ++ ops.flatMap Op.tokens).Nodup) :
    (w.run ops).created.Nodup := by
  rw [List.nodup_iff_count] at hn ⊢
  intro t
  have := hn t
  have := run_created w ops t
  simp only [List.count_append] at *
  omega

/-! ## the type assertion is the only source of the wrong-type panic -/

theorem fetchCore_not_wrongType (w : World) (k : ResId) (excl : Bool) (f : Form) (orPanic : Bool) :
    (w.fetchCore k excl f orPanic).2 ≠ .panic .wrongType := by
  rw [fetchCore_out]
  cases w.get k with
  | none => cases orPanic <;> simp
  | some c =>
    simp only []
    split
    · intro h; injection h with h; exact borrowPanic_ne_wrongType _ _ _ h
    · intro h; cases h

theorem sysData_not_wrongType (w : World) (items : List SdItem) : (w.sysData items).2 ≠ .panic .wrongType := by
  induction items generalizing w with
  | nil => intro h; cases h
  | cons it rest ih =>
    rcases sysData_cons w it rest with ⟨_, _, _, he⟩ | ⟨p, hf, he⟩ | ⟨c, b', hc, hb, he⟩
    · rw [he]
      have := ih w
      generalize w.sysData rest = r at this
      obtain ⟨w2, o⟩ := r
      cases o <;> first | exact this | (intro h; cases h)
    · rw [he]
      have := fetchCore_not_wrongType w ⟨it.ty, 0⟩ it.write .typed (!it.opt)
      rw [hf] at this; exact this
    · rw [he]
      generalize hr : sysData _ rest = r
      have : r.2 ≠ .panic .wrongType := hr ▸ ih _
      obtain ⟨w2, o⟩ := r
      cases o <;> first | exact this | (intro h; cases h)

theorem entryScoped_not_wrongType (w : World) (ty t : Nat) (bv : Bool) :
    (w.entryScoped ty t bv).2 ≠ .panic .wrongType := by
  have h1 : (w.entryOrInsert ty t bv).2 ≠ .panic .wrongType := by
    unfold entryOrInsert
    simp only []
    cases w.get ⟨ty, 0⟩ <;> exact fetchCore_not_wrongType _ _ _ _ _
  unfold entryScoped
  generalize w.entryOrInsert ty t bv = r at h1
  obtain ⟨w', o⟩ := r
  cases o <;> first | exact h1 | (intro h; cases h)

/-- the wrong-type panic comes from the type assertion of an id-taking call with a mismatching
type argument, and from nowhere else -/
theorem step_wrongType (w : World) (op : Op) (h : (w.step op).2 = .panic .wrongType) :
    ∃ a k, a ≠ k.ty ∧ ((∃ t, op = .insertById a k t) ∨ op = .removeById a k ∨ op = .tryFetchById a k ∨
      op = .tryFetchMutById a k ∨ (∃ t, op = .insertFused a k t)) := by
  cases op with
  | insert ty tok => simp [step, World.insert, insertById] at h
  | insertById a k tok =>
    by_cases hx : a ≠ k.ty
    · exact ⟨a, k, hx, Or.inl ⟨tok, rfl⟩⟩
    · simp [step, insertById, hx] at h
  | remove ty => simp only [step, World.remove, removeById_out] at h; simp at h; split at h <;> cases h
  | removeById a k =>
    by_cases hx : a ≠ k.ty
    · exact ⟨a, k, hx, Or.inr (Or.inl rfl)⟩
    · simp only [step, removeById_out, hx, if_false] at h; split at h <;> cases h
  | entry ty tok bv => exact absurd h (entryScoped_not_wrongType _ _ _ _)
  | hasValue ty => cases h
  | hasValueRaw k => cases h
  | getMut ty => simp only [step, World.getMut, getMutRaw] at h; split at h <;> cases h
  | getMutRaw k => simp only [step, getMutRaw] at h; split at h <;> cases h
  | setup items toks => cases h
  | exec items toks =>
    exfalso
    have h1 := sysData_not_wrongType (w.setup items toks).1 items
    simp only [step, exec] at h
    generalize sysData _ items = r at h1 h
    obtain ⟨w2, o⟩ := r
    cases o <;> first | exact h1 h | cases h
  | fetch ty => exact absurd h (fetchCore_not_wrongType _ _ _ _ _)
  | fetchMut ty => exact absurd h (fetchCore_not_wrongType _ _ _ _ _)
  | tryFetch ty => exact absurd h (fetchCore_not_wrongType _ _ _ _ _)
  | tryFetchMut ty => exact absurd h (fetchCore_not_wrongType _ _ _ _ _)
  | tryFetchById a k =>
    by_cases hx : a ≠ k.ty
    · exact ⟨a, k, hx, Or.inr (Or.inr (Or.inl rfl))⟩
    · simp only [step, tryFetchById, hx, if_false] at h
      exact absurd h (fetchCore_not_wrongType _ _ _ _ _)
  | tryFetchMutById a k =>
    by_cases hx : a ≠ k.ty
    · exact ⟨a, k, hx, Or.inr (Or.inr (Or.inr (Or.inl rfl)))⟩
    · simp only [step, tryFetchMutById, hx, if_false] at h
      exact absurd h (fetchCore_not_wrongType _ _ _ _ _)
  | systemData items => exact absurd h (sysData_not_wrongType _ _)
  | metaNext tys idx x =>
    exfalso
    simp only [step, metaNext] at h
    rcases metaScan_cases w x (tys.drop idx) idx with ⟨_, h2, _⟩ | ⟨_, ty, _, _, _, _, _, h2, _⟩
    · rw [h2] at h; cases h
    · rw [h2] at h; exact fetchCore_not_wrongType _ _ _ _ _ h
  | clone x =>
    exfalso
    simp only [step, cloneGuard] at h
    split at h
    · split at h
      · cases h
      · exact fetchCore_not_wrongType _ _ _ _ _ h
    · cases h
  | drop x => cases h
  | scope tys takes e => simp [step, scope] at h
  | insertFused a k tok =>
    by_cases hx : a ≠ k.ty
    · exact ⟨a, k, hx, Or.inr (Or.inr (Or.inr (Or.inr ⟨tok, rfl⟩)))⟩
    · simp only [step, insertFused_out, hx, if_false] at h; split at h <;> cases h
  | entryFault ty tok f =>
    exfalso
    cases f with
    | guardHeld bv =>
      exact entryScoped_not_wrongType w ty tok bv (entryFault_guardHeld_panic w ty tok bv _ h)
    | valueDrop =>
      simp only [step, entryFault] at h
      cases hk : w.get ⟨ty, 0⟩ with
      | some c => simp only [hk] at h; cases h
      | none => simp only [hk] at h; exact entryScoped_not_wrongType _ _ _ _ h
    | closure =>
      simp only [step, entryFault] at h
      cases hk : w.get ⟨ty, 0⟩ with
      | some c => simp only [hk] at h; exact entryScoped_not_wrongType _ _ _ _ h
      | none => simp only [hk] at h; cases h
  | execFault items toks =>
    exfalso
    have h1 := sysData_not_wrongType (w.setup items toks).1 items
    simp only [step, execFault] at h
    generalize sysData _ items = r at h1 h
    obtain ⟨w2, o⟩ := r
    cases o <;> first | exact h1 h | cases h

/-! ## values in the caller's hands, and the end of the world when a `Drop` panics -/

theorem count_filter_ite (l : List Nat) (p : Nat → Bool) (a : Nat) :
    (l.filter p).count a = if p a then l.count a else 0 := by
  by_cases hpa : p a = true
  · rw [if_pos hpa]; exact List.count_filter hpa
  · rw [if_neg hpa]
    apply List.count_eq_zero.mpr
    intro hm
    exact hpa (List.mem_filter.mp hm).2

/-- the caller dropping a value `remove` handed back moves it from `returned` to `dropped` -/
theorem dropReturned_linear {w : World} (hl : Linear w) (t : Nat) : Linear (w.dropReturned t) := by
  unfold dropReturned
  split
  · rename_i hm
    intro x
    have := hl x
    simp only [World.tokens, List.count_append] at this ⊢
    by_cases hx : x = t
    · subst hx
      have hp : 0 < w.returned.count x := List.count_pos_iff.mpr hm
      rw [List.count_erase_self]
      simp only [List.count_cons_self, List.count_nil]
      omega
    · rw [List.count_erase_of_ne hx]
      have : [t].count x = 0 := List.count_eq_zero.mpr (by intro hm; exact hx (List.mem_singleton.mp hm))
      omega
  · exact hl

/-- **the world dropped while one `Drop` panics**: every value the world held is afterwards dropped
or leaked, never both, never twice -/
theorem dropWorldPanic_once {w w' : World} {tok : Nat} {before leaked : List Nat} (hl : Linear w)
    (hn : w.created.Nodup) (h : w.dropWorldPanic tok before = some (w', leaked)) (t : Nat) (ht : t ∈ w.created) :
    w'.dropped.count t + w'.returned.count t + leaked.count t = 1 ∧ w'.cells = [] := by
  unfold dropWorldPanic at h
  simp only [] at h
  split at h
  · rename_i hc
    obtain ⟨h1, h2, h3, h4⟩ := hc
    simp only [Option.some.injEq, Prod.mk.injEq] at h
    obtain ⟨rfl, rfl⟩ := h
    refine ⟨?_, rfl⟩
    have hlin := linear_once hl hn t ht
    have hcr : w.created.count t = 1 := by rw [hn.count, if_pos ht]
    have hst : (w.cells.map (·.2.token)).count t ≤ 1 := by
      have := hl t; simp only [World.tokens] at this; omega
    simp only [World.tokens] at hlin
    simp only [List.count_append, count_filter_ite]
    have key : before.count t + [tok].count t +
        (if (decide (t ≠ tok ∧ t ∉ before)) = true then (w.cells.map (·.2.token)).count t else 0) =
        (w.cells.map (·.2.token)).count t := by
      by_cases e1 : t = tok
      · subst e1
        have : before.count t = 0 := List.count_eq_zero.mpr h2
        have : (w.cells.map (·.2.token)).count t = 1 := by
          have := List.count_pos_iff.mpr h1; omega
        simp; omega
      · by_cases e2 : t ∈ before
        · have hb : before.count t = 1 := by rw [h3.count, if_pos e2]
          have : (w.cells.map (·.2.token)).count t = 1 := by
            have := List.count_pos_iff.mpr (h4 t e2); omega
          have hk : [tok].count t = 0 := List.count_eq_zero.mpr (by intro hm; exact e1 (List.mem_singleton.mp hm))
          simp [e1, e2]; omega
        · have hb : before.count t = 0 := List.count_eq_zero.mpr e2
          have hk : [tok].count t = 0 := List.count_eq_zero.mpr (by intro hm; exact e1 (List.mem_singleton.mp hm))
          simp [e1, e2, hb, hk]
    omega
  · cases h
end Shred
