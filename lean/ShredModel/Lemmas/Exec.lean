import ShredModel.Lemmas.Accept
/-!
# What every trace of a dispatch plan satisfies

For **every** interleaving (all shuffles at `par` nodes): happens-before along `seq` nodes
(`traces_before`), isolation of whatever runs side by side (`traces_isolated`), exactly-once
(`traces_once`) and equality with the sequential run (`par_eq_seq`).
-/
namespace Shred
variable {ι : Type} [DecidableEq ι]

/-! ### shuffle facts -/

theorem shuffle_prefix {α} {la lb l p : List α} (hs : Shuffle la lb l) (hp : p <+: l) :
    ∃ pa pb, pa <+: la ∧ pb <+: lb ∧ Shuffle pa pb p := by
  induction hs generalizing p with
  | nil =>
    have : p = [] := by simpa using hp
    subst this; exact ⟨[], [], by simp, by simp, .nil⟩
  | @left x a b l _ ih =>
    cases p with
    | nil => exact ⟨[], [], by simp, by simp, .nil⟩
    | cons y p =>
      rw [List.cons_prefix_cons] at hp
      obtain ⟨rfl, hp⟩ := hp
      obtain ⟨pa, pb, h1, h2, h3⟩ := ih hp
      exact ⟨y :: pa, pb, by simp [List.cons_prefix_cons, h1], h2, .left h3⟩
  | @right x a b l _ ih =>
    cases p with
    | nil => exact ⟨[], [], by simp, by simp, .nil⟩
    | cons y p =>
      rw [List.cons_prefix_cons] at hp
      obtain ⟨rfl, hp⟩ := hp
      obtain ⟨pa, pb, h1, h2, h3⟩ := ih hp
      exact ⟨pa, y :: pb, h1, by simp [List.cons_prefix_cons, h2], .right h3⟩

/-- cut a shuffle at an event that can only have come from the left list -/
theorem shuffle_split_left {α} {la lb l : List α} (hs : Shuffle la lb l) :
    ∀ (l1 l2 : List α) (e : α), l = l1 ++ e :: l2 → e ∉ lb →
      ∃ a1 a2 b1 b2, la = a1 ++ e :: a2 ∧ lb = b1 ++ b2 ∧ Shuffle a1 b1 l1 ∧ Shuffle a2 b2 l2 := by
  induction hs with
  | nil => intro l1 l2 e h; simp at h
  | @left x a b l hs ih =>
    intro l1 l2 e h he
    cases l1 with
    | nil =>
      simp at h; obtain ⟨rfl, rfl⟩ := h
      exact ⟨[], a, [], b, by simp, by simp, .nil, hs⟩
    | cons z l1 =>
      simp at h; obtain ⟨rfl, rfl⟩ := h
      obtain ⟨a1, a2, b1, b2, h1, h2, h3, h4⟩ := ih l1 l2 e rfl he
      exact ⟨x :: a1, a2, b1, b2, by simp [h1], h2, .left h3, h4⟩
  | @right y a b l hs ih =>
    intro l1 l2 e h he
    cases l1 with
    | nil =>
      simp at h; obtain ⟨rfl, rfl⟩ := h
      exact absurd (by simp) he
    | cons z l1 =>
      simp at h; obtain ⟨rfl, rfl⟩ := h
      obtain ⟨a1, a2, b1, b2, h1, h2, h3, h4⟩ := ih l1 l2 e rfl (fun hh => he (by simp [hh]))
      exact ⟨a1, a2, y :: b1, b2, h1, by simp [h2], .right h3, h4⟩

theorem Shuffle.symm {α} {a b l : List α} (h : Shuffle a b l) : Shuffle b a l := by
  induction h with
  | nil => exact .nil
  | left _ ih => exact .right ih
  | right _ ih => exact .left ih

/-! ### basic facts about traces -/

theorem traces_ev_sys {t : Task ι} {l : List (Ev ι)} (h : Traces t l) : ∀ e, e ∈ l → e.sys ∈ Task.sys t := by
  induction h with
  | nil => intro e he; cases he
  | leaf s => intro e he; simp at he; rcases he with rfl | rfl <;> simp [Ev.sys, Task.sys]
  | seq _ _ iha ihb =>
    intro e he
    rcases List.mem_append.mp he with h | h
    · simp [Task.sys, iha e h]
    · simp [Task.sys, ihb e h]
  | par _ _ hs iha ihb =>
    intro e he
    rcases (hs.mem_iff e).mp he with h | h
    · simp [Task.sys, iha e h]
    · simp [Task.sys, ihb e h]
  | scope _ ih =>
    intro e he
    simp at he
    rcases he with rfl | h | rfl
    · simp [Ev.sys, Task.sys]
    · simp [Task.sys, ih e h]
    · simp [Ev.sys, Task.sys]

theorem traces_complete {t : Task ι} {l : List (Ev ι)} (h : Traces t l) :
    ∀ x, x ∈ Task.sys t → Ev.F x ∈ l ∧ Ev.D x ∈ l := by
  induction h with
  | nil => intro x hx; cases hx
  | leaf s => intro x hx; simp [Task.sys] at hx; subst hx; simp
  | seq _ _ iha ihb =>
    intro x hx
    rcases List.mem_append.mp hx with h | h
    · exact ⟨List.mem_append_left _ (iha x h).1, List.mem_append_left _ (iha x h).2⟩
    · exact ⟨List.mem_append_right _ (ihb x h).1, List.mem_append_right _ (ihb x h).2⟩
  | par _ _ hs iha ihb =>
    intro x hx
    rcases List.mem_append.mp hx with h | h
    · exact ⟨(hs.mem_iff _).mpr (Or.inl (iha x h).1), (hs.mem_iff _).mpr (Or.inl (iha x h).2)⟩
    · exact ⟨(hs.mem_iff _).mpr (Or.inr (ihb x h).1), (hs.mem_iff _).mpr (Or.inr (ihb x h).2)⟩
  | scope _ ih =>
    intro x hx
    simp [Task.sys] at hx
    rcases hx with rfl | h
    · simp
    · have := ih x h
      simp [this.1, this.2]

/-! ### happens-before (C02, C03, seq nodes of C16, thread-local-last of C12) -/

/-- `Before t x y`: at their lowest common ancestor, `x` lies in an earlier child of a `seq`. -/
inductive Before : Task ι → ι → ι → Prop
  | here {a b x y} : x ∈ Task.sys a → y ∈ Task.sys b → Before (.seq a b) x y
  | seqL {a b x y} : Before a x y → Before (.seq a b) x y
  | seqR {a b x y} : Before b x y → Before (.seq a b) x y
  | parL {a b x y} : Before a x y → Before (.par a b) x y
  | parR {a b x y} : Before b x y → Before (.par a b) x y
  | scope {s body x y} : Before body x y → Before (.scope s body) x y

theorem before_mem {t : Task ι} {x y : ι} (h : Before t x y) : x ∈ Task.sys t ∧ y ∈ Task.sys t := by
  induction h with
  | here hx hy => simp [Task.sys, hx, hy]
  | seqL _ ih => simp [Task.sys, ih.1, ih.2]
  | seqR _ ih => simp [Task.sys, ih.1, ih.2]
  | parL _ ih => simp [Task.sys, ih.1, ih.2]
  | parR _ ih => simp [Task.sys, ih.1, ih.2]
  | scope _ ih => simp [Task.sys, ih.1, ih.2]

theorem append_split {α} {la lb l1 l2 : List α} {e : α} (h : la ++ lb = l1 ++ e :: l2) (he : e ∉ la) :
    ∃ m, l1 = la ++ m ∧ lb = m ++ e :: l2 := by
  rcases List.append_eq_append_iff.mp h with ⟨m, h1, h2⟩ | ⟨m, h1, h2⟩
  · exact ⟨m, h1, h2⟩
  · -- la = l1 ++ m, e :: l2 = m ++ lb : then m = [] (else e ∈ la)
    cases m with
    | nil => exact ⟨[], by simpa using h1.symm, by simpa using h2.symm⟩
    | cons z m =>
      simp at h2
      obtain ⟨rfl, _⟩ := h2
      exact absurd (by rw [h1]; simp) he

/-- **Every dispatch honours `Before`.** Whenever `y` starts fetching, `x` has already dropped
its data — in every trace, i.e. for every interleaving. -/
theorem traces_before {t : Task ι} {l : List (Ev ι)} (h : Traces t l) :
    (Task.sys t).Nodup → ∀ x y, Before t x y → ∀ l1 l2, l = l1 ++ Ev.F y :: l2 → Ev.D x ∈ l1 := by
  induction h with
  | nil => intro _ x y hb; cases hb
  | leaf s => intro _ x y hb; cases hb
  | @seq a b la lb ha hb iha ihb =>
    intro hnd x y hbef l1 l2 hl
    simp only [Task.sys] at hnd
    obtain ⟨hna, hnb, hdisj⟩ := List.nodup_append.mp hnd
    cases hbef with
    | here hx hy =>
      have hnot : Ev.F y ∉ la := fun hm => hdisj y (traces_ev_sys ha _ hm) y hy rfl
      obtain ⟨m, rfl, _⟩ := append_split hl hnot
      exact List.mem_append_left _ (traces_complete ha x hx).2
    | seqL hb' =>
      have hy := (before_mem hb').2
      have hnot : Ev.F y ∉ lb := fun hm => hdisj y hy y (traces_ev_sys hb _ hm) rfl
      -- F y lies in la
      rcases List.append_eq_append_iff.mp hl with ⟨m, h1, h2⟩ | ⟨m, h1, h2⟩
      · exact absurd (by rw [h2]; simp) hnot
      · cases m with
        | nil => simp at h2; exact absurd (by rw [← h2]; simp) hnot
        | cons z m =>
          simp at h2; obtain ⟨rfl, rfl⟩ := h2
          exact iha hna x y hb' l1 m h1
    | seqR hb' =>
      have hy := (before_mem hb').2
      have hnot : Ev.F y ∉ la := fun hm => hdisj y (traces_ev_sys ha _ hm) y hy rfl
      obtain ⟨m, rfl, h2⟩ := append_split hl hnot
      exact List.mem_append_right _ (ihb hnb x y hb' m l2 h2)
  | @par a b la lb l ha hb hs iha ihb =>
    intro hnd x y hbef l1 l2 hl
    simp only [Task.sys] at hnd
    obtain ⟨hna, hnb, hdisj⟩ := List.nodup_append.mp hnd
    cases hbef with
    | parL hb' =>
      have hy := (before_mem hb').2
      have hnot : Ev.F y ∉ lb := fun hm => hdisj y hy y (traces_ev_sys hb _ hm) rfl
      obtain ⟨a1, a2, b1, b2, h1, _, h3, _⟩ := shuffle_split_left hs l1 l2 _ hl hnot
      exact (h3.mem_iff _).mpr (Or.inl (iha hna x y hb' a1 a2 h1))
    | parR hb' =>
      have hy := (before_mem hb').2
      have hnot : Ev.F y ∉ la := fun hm => hdisj y (traces_ev_sys ha _ hm) y hy rfl
      obtain ⟨b1, b2, a1, a2, h1, _, h3, _⟩ := shuffle_split_left hs.symm l1 l2 _ hl hnot
      exact (h3.mem_iff _).mpr (Or.inl (ihb hnb x y hb' b1 b2 h1))
  | @scope s body l hb ih =>
    intro hnd x y hbef l1 l2 hl
    simp only [Task.sys] at hnd
    cases hbef with
    | scope hb' =>
      have hy := (before_mem hb').2
      have hys : y ≠ s := fun h => (List.nodup_cons.mp hnd).1 (h ▸ hy)
      cases l1 with
      | nil => simp at hl; exact absurd hl.1.symm hys
      | cons z l1 =>
        simp at hl
        obtain ⟨rfl, hl⟩ := hl
        -- l ++ [D s] = l1 ++ F y :: l2, and F y is not the final D s
        rcases List.append_eq_append_iff.mp hl with ⟨m, h1, h2⟩ | ⟨m, h1, h2⟩
        · cases m with
          | nil => simp at h2
          | cons w m => simp at h2
        · cases m with
          | nil => simp at h2
          | cons w m =>
            simp at h2
            obtain ⟨rfl, rfl⟩ := h2
            exact List.mem_cons_of_mem _ (ih (List.nodup_cons.mp hnd).2 x y hb' l1 m h1)


/-! ### isolation (C01, C07; par nodes of C16) -/

/-- `Anc t x y`: `x` is a batch scope of `t` and `y` runs inside it -/
inductive Anc : Task ι → ι → ι → Prop
  | here {s body y} : y ∈ Task.sys body → Anc (.scope s body) s y
  | scope {s body x y} : Anc body x y → Anc (.scope s body) x y
  | seqL {a b x y} : Anc a x y → Anc (.seq a b) x y
  | seqR {a b x y} : Anc b x y → Anc (.seq a b) x y
  | parL {a b x y} : Anc a x y → Anc (.par a b) x y
  | parR {a b x y} : Anc b x y → Anc (.par a b) x y

/-- static well-formedness: whatever two children of a `par` contain is pairwise compatible -/
def WF (Compat : ι → ι → Prop) : Task ι → Prop
  | .nil => True
  | .leaf _ => True
  | .seq a b => WF Compat a ∧ WF Compat b
  | .par a b => (∀ x, x ∈ Task.sys a → ∀ y, y ∈ Task.sys b → Compat x y) ∧ WF Compat a ∧ WF Compat b
  | .scope _ body => WF Compat body

/-- `x`'s window is open after the events `p` -/
def OpenIn (x : ι) (p : List (Ev ι)) : Prop := Ev.F x ∈ p ∧ Ev.D x ∉ p

theorem prefix_append_cases {α} {p la lb : List α} (h : p <+: la ++ lb) :
    p <+: la ∨ ∃ m, p = la ++ m ∧ m <+: lb := by
  obtain ⟨r, hr⟩ := h
  rcases List.append_eq_append_iff.mp hr with ⟨m, h1, h2⟩ | ⟨m, h1, h2⟩
  · exact Or.inl ⟨m, h1.symm⟩
  · exact Or.inr ⟨m, h1, ⟨r, h2.symm⟩⟩

theorem prefix_mem {α} {p l : List α} (h : p <+: l) {e : α} (he : e ∈ p) : e ∈ l := by
  obtain ⟨r, rfl⟩ := h; exact List.mem_append_left _ he

/-- **Isolation for every interleaving.** In every prefix of every trace of a well-formed
task, two distinct open systems are compatible, unless one is a batch and the other runs
inside it. -/
theorem traces_isolated {Compat : ι → ι → Prop} (hsym : ∀ x y, Compat x y → Compat y x)
    {t : Task ι} {l : List (Ev ι)} (h : Traces t l) :
    WF Compat t → (Task.sys t).Nodup → ∀ p, p <+: l → ∀ x y, x ≠ y → OpenIn x p → OpenIn y p →
      Anc t x y ∨ Anc t y x ∨ Compat x y := by
  induction h with
  | nil => intro _ _ p hp x y _ hx; have : p = [] := by simpa using hp
           subst this; cases hx.1
  | leaf s =>
    intro _ _ p hp x y hne hx hy
    have h1 := prefix_mem hp hx.1
    have h2 := prefix_mem hp hy.1
    simp at h1 h2
    exact absurd (h1.trans h2.symm) hne
  | @seq a b la lb ha hb iha ihb =>
    intro hwf hnd p hp x y hne hx hy
    simp only [Task.sys] at hnd
    obtain ⟨hna, hnb, _⟩ := List.nodup_append.mp hnd
    rcases prefix_append_cases hp with hpa | ⟨m, rfl, hm⟩
    · rcases iha hwf.1 hna p hpa x y hne hx hy with h | h | h
      · exact Or.inl (.seqL h)
      · exact Or.inr (Or.inl (.seqL h))
      · exact Or.inr (Or.inr h)
    · -- nothing of `a` is still open once `la` is traces_complete
      have hopen : ∀ z, OpenIn z (la ++ m) → OpenIn z m := by
        intro z hz
        rcases List.mem_append.mp hz.1 with h | h
        · exact absurd (List.mem_append_left _ (traces_complete ha z (traces_ev_sys ha _ h)).2) hz.2
        · exact ⟨h, fun hd => hz.2 (List.mem_append_right _ hd)⟩
      rcases ihb hwf.2 hnb m hm x y hne (hopen x hx) (hopen y hy) with h | h | h
      · exact Or.inl (.seqR h)
      · exact Or.inr (Or.inl (.seqR h))
      · exact Or.inr (Or.inr h)
  | @par a b la lb l ha hb hs iha ihb =>
    intro hwf hnd p hp x y hne hx hy
    simp only [Task.sys] at hnd
    obtain ⟨hna, hnb, _⟩ := List.nodup_append.mp hnd
    obtain ⟨pa, pb, hpa, hpb, hsp⟩ := shuffle_prefix hs hp
    have side : ∀ z, OpenIn z p → OpenIn z pa ∨ OpenIn z pb := by
      intro z hz
      rcases (hsp.mem_iff _).mp hz.1 with h | h
      · exact Or.inl ⟨h, fun hd => hz.2 ((hsp.mem_iff _).mpr (Or.inl hd))⟩
      · exact Or.inr ⟨h, fun hd => hz.2 ((hsp.mem_iff _).mpr (Or.inr hd))⟩
    rcases side x hx with hxa | hxb <;> rcases side y hy with hya | hyb
    · rcases iha hwf.2.1 hna pa hpa x y hne hxa hya with h | h | h
      · exact Or.inl (.parL h)
      · exact Or.inr (Or.inl (.parL h))
      · exact Or.inr (Or.inr h)
    · exact Or.inr (Or.inr (hwf.1 x (traces_ev_sys ha _ (prefix_mem hpa hxa.1)) y (traces_ev_sys hb _ (prefix_mem hpb hyb.1))))
    · exact Or.inr (Or.inr (hsym _ _ (hwf.1 y (traces_ev_sys ha _ (prefix_mem hpa hya.1)) x (traces_ev_sys hb _ (prefix_mem hpb hxb.1)))))
    · rcases ihb hwf.2.2 hnb pb hpb x y hne hxb hyb with h | h | h
      · exact Or.inl (.parR h)
      · exact Or.inr (Or.inl (.parR h))
      · exact Or.inr (Or.inr h)
  | @scope s body l hb ih =>
    intro hwf hnd p hp x y hne hx hy
    simp only [Task.sys] at hnd
    have hnb := (List.nodup_cons.mp hnd).2
    -- an open system other than `s` belongs to the body
    have inner : ∀ z, z ≠ s → OpenIn z p → z ∈ Task.sys body := by
      intro z hz ho
      have := prefix_mem hp ho.1
      simp at this
      rcases this with h | h
      · exact absurd h hz
      · exact traces_ev_sys hb _ h
    by_cases hxs : x = s
    · subst hxs
      exact Or.inl (.here (inner y (Ne.symm hne) hy))
    · by_cases hys : y = s
      · subst hys
        exact Or.inr (Or.inl (.here (inner x hxs hx)))
      · cases p with
        | nil => cases hx.1
        | cons e p' =>
          have hp' : e = Ev.F s ∧ p' <+: l ++ [Ev.D s] := by
            have := hp; rw [List.cons_append, List.cons_prefix_cons] at this; exact this
          obtain ⟨rfl, hp'⟩ := hp'
          have strip : ∀ z, z ≠ s → OpenIn z (Ev.F s :: p') → OpenIn z p' := by
            intro z hz ho
            refine ⟨?_, fun hd => ho.2 (List.mem_cons_of_mem _ hd)⟩
            have := ho.1
            simp at this
            rcases this with h | h
            · exact absurd h hz
            · exact h
          rcases prefix_append_cases hp' with hpl | ⟨m, rfl, _⟩
          · rcases ih hwf hnb p' hpl x y hne (strip x hxs hx) (strip y hys hy) with h | h | h
            · exact Or.inl (.scope h)
            · exact Or.inr (Or.inl (.scope h))
            · exact Or.inr (Or.inr h)
          · -- the whole body is done: nothing of it is open
            exfalso
            have hxb := inner x hxs hx
            exact (strip x hxs hx).2 (List.mem_append_left _ (traces_complete hb x hxb).2)


/-! ### exactly once (C04) -/

theorem shuffle_count {α} [DecidableEq α] {la lb l : List α} (hs : Shuffle la lb l) (x : α) :
    l.count x = la.count x + lb.count x := by
  induction hs with
  | nil => rfl
  | left _ ih => simp [List.count_cons, ih]; omega
  | right _ ih => simp [List.count_cons, ih]; omega

theorem count_zero_of_not_sys {t : Task ι} {l : List (Ev ι)} (h : Traces t l) (e : Ev ι) (he : e.sys ∉ Task.sys t) :
    l.count e = 0 := List.count_eq_zero.mpr (fun hm => he (traces_ev_sys h e hm))

/-- every system of the task fetches once and drops once, in every trace -/
theorem traces_once {t : Task ι} {l : List (Ev ι)} (h : Traces t l) :
    (Task.sys t).Nodup → ∀ x, x ∈ Task.sys t → l.count (Ev.F x) = 1 ∧ l.count (Ev.D x) = 1 := by
  induction h with
  | nil => intro _ x hx; cases hx
  | leaf s => intro _ x hx; simp [Task.sys] at hx; subst hx; simp [List.count_cons]
  | @seq a b la lb ha hb iha ihb =>
    intro hnd x hx
    simp only [Task.sys] at hnd hx
    obtain ⟨hna, hnb, hdisj⟩ := List.nodup_append.mp hnd
    simp only [List.count_append]
    rcases List.mem_append.mp hx with h | h
    · have hnb' : x ∉ Task.sys b := fun hb' => hdisj x h x hb' rfl
      rw [count_zero_of_not_sys hb (.F x) hnb', count_zero_of_not_sys hb (.D x) hnb']
      simpa using iha hna x h
    · have hna' : x ∉ Task.sys a := fun ha' => hdisj x ha' x h rfl
      rw [count_zero_of_not_sys ha (.F x) hna', count_zero_of_not_sys ha (.D x) hna']
      simpa using ihb hnb x h
  | @par a b la lb l ha hb hs iha ihb =>
    intro hnd x hx
    simp only [Task.sys] at hnd hx
    obtain ⟨hna, hnb, hdisj⟩ := List.nodup_append.mp hnd
    rw [shuffle_count hs, shuffle_count hs]
    rcases List.mem_append.mp hx with h | h
    · have hnb' : x ∉ Task.sys b := fun hb' => hdisj x h x hb' rfl
      rw [count_zero_of_not_sys hb (.F x) hnb', count_zero_of_not_sys hb (.D x) hnb']
      simpa using iha hna x h
    · have hna' : x ∉ Task.sys a := fun ha' => hdisj x ha' x h rfl
      rw [count_zero_of_not_sys ha (.F x) hna', count_zero_of_not_sys ha (.D x) hna']
      simpa using ihb hnb x h
  | @scope s body l hb ih =>
    intro hnd x hx
    simp only [Task.sys] at hnd hx
    obtain ⟨hs, hnb⟩ := List.nodup_cons.mp hnd
    rcases List.mem_cons.mp hx with rfl | h
    · have h1 := count_zero_of_not_sys hb (.F x) hs
      have h2 := count_zero_of_not_sys hb (.D x) hs
      simp [List.count_cons, List.count_append, h1, h2]
    · have hxs : x ≠ s := fun h' => hs (h' ▸ h)
      have := ih hnb x h
      have hxs' : ¬ s = x := fun h' => hxs h'.symm
      simp [List.count_cons, List.count_append, this.1, this.2, hxs']

/-! ### schedule independence (C05) -/

variable {σ : Type}

def eval (act : Ev ι → σ → σ) (l : List (Ev ι)) (s : σ) : σ := l.foldl (fun s e => act e s) s

theorem eval_append (act : Ev ι → σ → σ) (a b : List (Ev ι)) (s : σ) :
    eval act (a ++ b) s = eval act b (eval act a s) := by
  simp [eval, List.foldl_append]

theorem commute_list (act : Ev ι → σ → σ) (y : Ev ι) (la : List (Ev ι))
    (h : ∀ a, a ∈ la → ∀ s, act a (act y s) = act y (act a s)) (s : σ) :
    eval act la (act y s) = act y (eval act la s) := by
  induction la generalizing s with
  | nil => rfl
  | cons a la ih =>
    simp only [eval, List.foldl] at *
    rw [h a (by simp) s]
    exact ih (fun a' ha' => h a' (by simp [ha'])) (act a s)

theorem shuffle_eval (act : Ev ι → σ → σ) {la lb l : List (Ev ι)} (hs : Shuffle la lb l)
    (hc : ∀ a, a ∈ la → ∀ b, b ∈ lb → ∀ s, act a (act b s) = act b (act a s)) (s : σ) :
    eval act l s = eval act (la ++ lb) s := by
  induction hs generalizing s with
  | nil => rfl
  | @left x a b l _ ih =>
    simp only [eval, List.foldl, List.cons_append] at *
    exact ih (fun a' ha' b' hb' => hc a' (by simp [ha']) b' hb') (act x s)
  | @right y a b l _ ih =>
    have ih' := ih (fun a' ha' b' hb' => hc a' ha' b' (by simp [hb'])) (act y s)
    have e1 : eval act (y :: l) s = eval act l (act y s) := rfl
    rw [e1, ih', eval_append, eval_append]
    have e2 : eval act (y :: b) (eval act a s) = eval act b (act y (eval act a s)) := rfl
    rw [e2, commute_list act y a (fun a' ha' s' => hc a' ha' y (by simp) s') s]

/-- **Parallel dispatch equals sequential dispatch**, for every interleaving, provided events
of compatible systems commute (which is what "depends only on its own state and on the
resources it declared" gives, see `compat_commute` in the full development). -/
theorem par_eq_seq {Compat : ι → ι → Prop} (act : Ev ι → σ → σ)
    (hcomm : ∀ e1 e2, Compat e1.sys e2.sys → ∀ s, act e1 (act e2 s) = act e2 (act e1 s))
    {t : Task ι} {l : List (Ev ι)} (h : Traces t l) :
    WF Compat t → ∀ s, eval act l s = eval act (Task.seqTrace t) s := by
  induction h with
  | nil => intro _ s; rfl
  | leaf x => intro _ s; rfl
  | @seq a b la lb _ _ iha ihb =>
    intro hwf s
    simp only [Task.seqTrace, eval_append]
    rw [iha hwf.1, ihb hwf.2]
  | @par a b la lb l ha hb hs iha ihb =>
    intro hwf s
    rw [shuffle_eval act hs (fun e1 h1 e2 h2 => hcomm e1 e2 (hwf.1 _ (traces_ev_sys ha _ h1) _ (traces_ev_sys hb _ h2)))]
    simp only [Task.seqTrace, eval_append]
    rw [iha hwf.2.1, ihb hwf.2.2]
  | @scope x body l _ ih =>
    intro hwf s
    simp only [Task.seqTrace]
    have e1 : ∀ (m : List (Ev ι)) (s : σ), eval act (Ev.F x :: m ++ [Ev.D x]) s
        = act (Ev.D x) (eval act m (act (Ev.F x) s)) := by
      intro m s; simp [eval, List.foldl_append]
    rw [e1, e1, ih hwf]


end Shred
