import ShredModel.Lemmas.Sim
import ShredModel.Lemmas.ZipOrder
import ShredModel.Lemmas.TaskN
import ShredModel.Model.Plan
/-!
# Every reachable builder is good

`Good D Dep g`: the mirrored builder `g.b` (after `g.n` registrations whose declarations are
`D` and whose dependency lists are `Dep`) is zipped by some `z` satisfying all plan-level
invariants. Proved for every sequence of registrations by induction.
-/
namespace Shred

/-- the join policy of the mirror refuses groups of four -/
theorem zJoinOk_policy (st : ZStage) (g t : Nat) (h : zJoinOk st g t = true) (gk : ZGroup)
    (hgk : st[g]? = some gk) : gk.sys.length + 1 < 5 := by
  unfold zJoinOk StagesBuilder.joinOkCols at h
  simp only [Bool.and_eq_true, decide_eq_true_eq] at h
  have := h.1
  rw [getD_map st _ g _ gk hgk] at this
  simp [maxSystemsPerGroup] at this
  omega

/-- proof-side state: the builder, the number of registrations so far, and (ghost) the values
that number had at each barrier -/
structure GState where
  b : StagesBuilder := {}
  n : Nat := 0
  bars : List Nat := []

def GState.step (g : GState) : SOp → GState
  | .insert dep d => { g with b := g.b.insert dep g.n g.n d, n := g.n + 1 }
  | .barrier => { g with b := g.b.addBarrier, bars := g.n :: g.bars }

theorem gstate_foldl (ops : List SOp) (g : GState) :
    ((ops.foldl GState.step g).b, (ops.foldl GState.step g).n) = ops.foldl SOp.step (g.b, g.n) := by
  induction ops generalizing g with
  | nil => rfl
  | cons op ops ih => cases op <;> exact ih _

structure GoodZ (D : Nat → Decl) (Dep : Nat → List Nat) (g : GState) (z : ZB) : Prop where
  zips : Zips g.b z
  ok : z.OK D
  fit : z.Fit D 5
  ids : ∀ x, z.allIds.count x = if x < g.n then 1 else 0
  deps : ∀ B A, B < g.n → A ∈ Dep B → OrderedBefore z A B
  bars_le : ∀ k, k ∈ g.bars → k ≤ g.n
  low : ∀ k, k ∈ g.bars → ∀ x, x < k → ∀ s, InStage z s x → s < z.barrier
  sep : ∀ k, k ∈ g.bars → ∀ x y, x < k → k ≤ y → y < g.n →
          ∀ sx sy, InStage z sx x → InStage z sy y → sx < sy

def Good (D : Nat → Decl) (Dep : Nat → List Nat) (g : GState) : Prop := ∃ z, GoodZ D Dep g z

theorem GoodZ.placed {D Dep g z} (h : GoodZ D Dep g z) {x : Nat} (hx : x < g.n) : ∃ s, InStage z s x := by
  apply mem_allIds_iff.mp
  apply List.count_pos_iff.mp
  rw [h.ids x]; simp [hx]

theorem GoodZ.barrier_le {D Dep g z} (h : GoodZ D Dep g z) : z.barrier ≤ z.stages.length := by
  have h1 := h.zips.barrier
  have h2 := h.zips.barrier_le
  have h3 := (zips_length h.zips).1
  omega

theorem good_init (D : Nat → Decl) (Dep : Nat → List Nat) : Good D Dep {} := by
  refine ⟨{}, zips_init, ?_, ?_, ?_, ?_, ?_, ?_, ?_⟩
  · intro st h; simp at h
  · intro st h; simp at h
  · intro x; simp [ZB.allIds]
  · intro B A hB; simp at hB
  · intro k hk; simp at hk
  · intro k hk; simp at hk
  · intro k hk; simp at hk

theorem good_insert {D : Nat → Decl} {Dep : Nat → List Nat} {g : GState} (hg : Good D Dep g)
    (dep : List Nat) (d : Decl) (hD : D g.n = d) (hDep : Dep g.n = dep) (hlt : ∀ A, A ∈ dep → A < g.n) :
    Good D Dep (g.step (.insert dep d)) := by
  obtain ⟨z, hz⟩ := hg
  have hcount : ∀ x, (z.insert zJoinOk sortDedup dedup dep g.n g.n d).allIds.count x
      = if x < g.n + 1 then 1 else 0 := by
    intro x
    rw [insert_count, hz.ids x]
    by_cases h1 : x < g.n
    · have : x ≠ g.n := by omega
      simp [h1, this]; omega
    · by_cases h2 : x = g.n
      · subst h2; simp
      · have : ¬ x < g.n + 1 := by omega
        simp [h1, h2, this]
  obtain ⟨sNew, hsNew, hinNew⟩ :=
    insert_at_or_after_barrier zJoinOk sortDedup dedup z hz.barrier_le dep g.n g.n d
  have huniq : ∀ s, InStage (z.insert zJoinOk sortDedup dedup dep g.n g.n d) s g.n → s = sNew := by
    intro s hs
    exact inStage_unique (by rw [hcount]; split <;> omega) hs hinNew
  have hold : ∀ s x, x ≠ g.n → InStage (z.insert zJoinOk sortDedup dedup dep g.n g.n d) s x →
      InStage z s x := fun s x hx h => inStage_place_inv z _ g.n g.n _ d hx h
  have hbar : (z.insert zJoinOk sortDedup dedup dep g.n g.n d).barrier = z.barrier := by
    unfold ZB.insert; cases z.target zJoinOk dedup dep (sortDedup d.reads) d <;> rfl
  refine ⟨z.insert zJoinOk sortDedup dedup dep g.n g.n d, insert_sim hz.zips dep g.n g.n d,
    ?_, ?_, hcount, ?_, ?_, ?_, ?_⟩
  · exact insert_preserves_OK zJoinOk sortDedup (fun l x => mem_sortDedup) dedup z dep g.n g.n d hD hz.ok
  · exact insert_fit (by omega) zJoinOk zJoinOk_policy sortDedup dedup z hz.fit dep g.n d hD
  · intro B A hB hA
    simp only [GState.step] at hB
    by_cases hBn : B = g.n
    · subst hBn
      rw [hDep] at hA
      exact insert_orders_deps zJoinOk sortDedup dedup (fun l x => mem_dedup) z hz.barrier_le dep g.n g.n d A hA
        (hz.placed (hlt A hA))
    · exact place_mono_ordered z _ g.n g.n _ d (hz.deps B A (by omega) hA)
  · intro k hk
    have := hz.bars_le k hk
    simp only [GState.step]; omega
  · intro k hk x hx s hs
    have hkn := hz.bars_le k hk
    rw [hbar]
    exact hz.low k hk x hx s (hold s x (by omega) hs)
  · intro k hk x y hx hky hy sx sy hsx hsy
    have hkn := hz.bars_le k hk
    simp only [GState.step] at hy
    have hx' := hold sx x (by omega) hsx
    by_cases hyn : y = g.n
    · subst hyn
      have := huniq sy hsy
      have := hz.low k hk x hx sx hx'
      omega
    · exact hz.sep k hk x y hx hky (by omega) sx sy hx' (hold sy y hyn hsy)

theorem good_barrier {D : Nat → Decl} {Dep : Nat → List Nat} {g : GState} (hg : Good D Dep g) :
    Good D Dep (g.step .barrier) := by
  obtain ⟨z, hz⟩ := hg
  refine ⟨z.addBarrier, addBarrier_sim hz.zips, hz.ok, hz.fit, hz.ids, hz.deps, ?_, ?_, ?_⟩
  · intro k hk
    simp only [GState.step, List.mem_cons] at hk
    rcases hk with rfl | hk
    · exact Nat.le_refl _
    · exact hz.bars_le k hk
  · intro k hk x hx s hs
    exact inStage_lt_length hs
  · intro k hk x y hx hky hy sx sy hsx hsy
    simp only [GState.step, List.mem_cons] at hk hy
    rcases hk with rfl | hk
    · omega
    · exact hz.sep k hk x y hx hky hy sx sy hsx hsy

/-- `D`, `Dep` are the declarations / dependency lists of the registration sequence, and every
dependency refers to an earlier registration (what `DispatcherBuilder::add` guarantees) -/
def Consistent (D : Nat → Decl) (Dep : Nat → List Nat) : Nat → List SOp → Prop
  | _, [] => True
  | n, .insert dep d :: ops => D n = d ∧ Dep n = dep ∧ (∀ A, A ∈ dep → A < n) ∧ Consistent D Dep (n + 1) ops
  | n, .barrier :: ops => Consistent D Dep n ops

theorem good_foldl {D : Nat → Decl} {Dep : Nat → List Nat} (ops : List SOp) (g : GState)
    (hg : Good D Dep g) (hc : Consistent D Dep g.n ops) : Good D Dep (ops.foldl GState.step g) := by
  induction ops generalizing g with
  | nil => exact hg
  | cons op ops ih =>
    cases op with
    | insert dep d => exact ih _ (good_insert hg dep d hc.1 hc.2.1 hc.2.2.1) hc.2.2.2
    | barrier => exact ih _ (good_barrier hg) hc

/-- **Every registration sequence yields a good builder.** -/
theorem good_run {D : Nat → Decl} {Dep : Nat → List Nat} (ops : List SOp) (hc : Consistent D Dep 0 ops) :
    Good D Dep (ops.foldl GState.step {}) :=
  good_foldl ops {} (good_init D Dep) hc

#print axioms good_run
end Shred
