import ShredModel.Lemmas.World
/-!
# C08 lemmas, second part: `&mut` operations, composite fetches, unwinding, frames.
-/
namespace Shred
open World

/-- with no live guard the invariant says: every cell is free -/
theorem inv_of_no_guards {w : World} (hg : w.guards = []) :
    Inv w ↔ ∀ r c, w.get r = some c → c.borrow = .free := by
  constructor
  · intro hw r c hc
    have := hw r
    rw [hc, nLive_nil hg, nLive_nil hg] at this
    simp only [Option.map_some] at this
    cases hb : c.borrow with
    | free => rfl
    | shared n => rw [hb] at this; simp only [BorrowOk] at this; omega
    | excl => rw [hb] at this; simp only [BorrowOk] at this; omega
  · intro h r
    rw [nLive_nil hg, nLive_nil hg]
    cases hc : w.get r with
    | none => simp [BorrowOk]
    | some c => simp [h r c hc, BorrowOk]

theorem inv_not_shared_zero {w : World} (hw : Inv w) {k : ResId} {c : Cell} (h : w.get k = some c) :
    c.borrow ≠ .shared 0 := by
  intro hb
  have := hw k
  rw [h] at this
  simp only [Option.map_some, hb, BorrowOk] at this
  omega

theorem releaseBorrow_tryBorrow {b b' : Borrow} {excl : Bool} (h : tryBorrow b excl = some b')
    (h0 : b ≠ .shared 0) : releaseBorrow b' excl = b := by
  cases b with
  | free => cases excl <;> simp [tryBorrow] at h <;> subst h <;> rfl
  | excl => cases excl <;> simp [tryBorrow] at h
  | shared n =>
    cases excl
    · simp [tryBorrow] at h; subst h
      cases n with
      | zero => exact absurd rfl h0
      | succ n => rfl
    · simp [tryBorrow] at h

/-- the result of `release` depends only on the two tables -/
theorem release_cells_guards {w1 w2 : World} (hc : w2.cells = w1.cells) (hg : w2.guards = w1.guards) (h : Nat) :
    (w2.release h).cells = (w1.release h).cells ∧ (w2.release h).guards = (w1.release h).guards := by
  unfold release
  rw [hg]
  cases hf : findGuard h w1.guards with
  | none => exact ⟨hc, hg⟩
  | some g =>
    simp only [get_def, hc]
    cases lookupCell g.key w1.cells with
    | none => dsimp only; exact ⟨rfl, rfl⟩
    | some c => dsimp only; exact ⟨rfl, rfl⟩

/-- a borrow taken and released again leaves both tables exactly as they were -/
theorem acquire_release {w : World} (hw : Inv w) (hh : HandlesOk w) {k : ResId} {c : Cell} {excl : Bool}
    {b' : Borrow} (h : w.get k = some c) (hb : tryBorrow c.borrow excl = some b') :
    let w1 : World := { w with cells := setCell k { c with borrow := b' } w.cells,
                               guards := w.guards ++ [(w.nextHandle, ⟨k, excl⟩)],
                               nextHandle := w.nextHandle + 1 }
    (w1.release w.nextHandle).cells = w.cells ∧ (w1.release w.nextHandle).guards = w.guards := by
  intro w1
  have hf : findGuard w.nextHandle w1.guards = some ⟨k, excl⟩ := findGuard_append_fresh hh.fresh
  have hg : w1.get (⟨k, excl⟩ : Guard).key = some { c with borrow := b' } := by
    simp [w1, get_def]
  rw [release_live hf hg]
  refine ⟨?_, ?_⟩
  · show setCell k _ (setCell k _ w.cells) = w.cells
    rw [setCell_setCell]
    apply setCell_self
    rw [← get_def, h]
    have := releaseBorrow_tryBorrow hb (inv_not_shared_zero hw h)
    simp only [this]
  · exact dropGuard_append_fresh hh.fresh

/-! ## guards on a freshly borrowed world with no other guard -/

theorem fetchCore_release_nil {w : World} (hg : w.guards = []) (k : ResId) (excl : Bool) (f : Form) (orPanic : Bool) :
    ∀ h t, (w.fetchCore k excl f orPanic).2 = .guard h t →
      ((w.fetchCore k excl f orPanic).1.release h).guards = [] := by
  intro h t ho
  rcases fetchCore_cases w k excl f orPanic with ⟨_, ⟨_, h2⟩ | ⟨c, _, _, h2⟩⟩ | ⟨c, b', hc, hb, he⟩
  · rw [h2] at ho; split at ho <;> cases ho
  · rw [h2] at ho; cases ho
  · rw [he] at ho ⊢
    cases ho
    have hf : findGuard w.nextHandle ([] ++ [(w.nextHandle, (⟨k, excl⟩ : Guard))]) = some ⟨k, excl⟩ := by
      simp [findGuard]
    have hgk : ({ w with cells := setCell k { c with borrow := b' } w.cells,
                         guards := w.guards ++ [(w.nextHandle, ⟨k, excl⟩)],
                         nextHandle := w.nextHandle + 1 } : World).get k = some { c with borrow := b' } := by
      simp [get_def]
    rw [hg] at hgk ⊢
    rw [release_live hf hgk]
    simp [dropGuard]

/-! ## `&mut` operations -/

theorem insertById_inv {w : World} (hw : Inv w) (hg : w.guards = []) (a : Nat) (k : ResId) (t : Nat) :
    Inv (w.insertById a k t).1 ∧ (w.insertById a k t).1.guards = [] := by
  unfold insertById
  split
  · exact ⟨hw, hg⟩
  · refine ⟨?_, hg⟩
    rw [inv_of_no_guards hg] at hw
    rw [inv_of_no_guards (by exact hg)]
    intro r c hc
    by_cases hr : r = k
    · subst hr; simp [get_def] at hc; rw [← hc]
    · simp only [get_def, lookup_setCell_other _ _ hr] at hc
      exact hw r c hc

theorem removeById_inv {w : World} (hw : Inv w) (hg : w.guards = []) (a : Nat) (k : ResId) :
    Inv (w.removeById a k).1 ∧ (w.removeById a k).1.guards = [] := by
  unfold removeById
  split
  · exact ⟨hw, hg⟩
  · cases hk : w.get k with
    | none => exact ⟨hw, hg⟩
    | some c =>
      refine ⟨?_, hg⟩
      rw [inv_of_no_guards hg] at hw
      rw [inv_of_no_guards (by exact hg)]
      intro r c' hc
      by_cases hr : r = k
      · subst hr; simp [get_def] at hc
      · simp only [get_def, lookup_eraseCell_other _ hr] at hc
        exact hw r c' hc

theorem entryOrInsert_inv {w : World} (hw : Inv w) (hg : w.guards = []) (ty t : Nat) (bv : Bool) :
    Inv (w.entryOrInsert ty t bv).1 := by
  unfold entryOrInsert
  simp only []
  cases hk : w.get ⟨ty, 0⟩ with
  | some c =>
    simp only []
    apply fetchCore_inv
    cases bv
    · exact hw
    · exact hw
  | none =>
    simp only []
    apply fetchCore_inv
    rw [inv_of_no_guards hg] at hw
    rw [inv_of_no_guards (by exact hg)]
    intro r c hc
    by_cases hr : r = ⟨ty, 0⟩
    · subst hr; simp [get_def] at hc; rw [← hc]
    · simp only [get_def, lookup_setCell_other _ _ hr] at hc
      exact hw r c hc

theorem entryOrInsert_guard_nil {w : World} (hg : w.guards = []) (ty t : Nat) (bv : Bool) :
    ∀ h t', (w.entryOrInsert ty t bv).2 = .guard h t' → ((w.entryOrInsert ty t bv).1.release h).guards = [] := by
  unfold entryOrInsert
  simp only []
  cases hk : w.get ⟨ty, 0⟩ with
  | some c =>
    simp only []
    cases bv
    · exact fetchCore_release_nil hg _ _ _ _
    · exact fetchCore_release_nil (w := { w with created := w.created ++ [t], dropped := w.dropped ++ [t] }) hg _ _ _ _
  | none =>
    simp only []
    exact fetchCore_release_nil (w := { w with cells := setCell ⟨ty, 0⟩ ⟨ty, t, .free⟩ w.cells, created := w.created ++ [t] }) hg _ _ _ _

theorem fetchCore_guards_of_not_guard {w : World} (k : ResId) (excl : Bool) (f : Form) (orPanic : Bool)
    (hn : ∀ h t, (w.fetchCore k excl f orPanic).2 ≠ .guard h t) :
    (w.fetchCore k excl f orPanic).1 = w := by
  rcases fetchCore_cases w k excl f orPanic with ⟨h, _⟩ | ⟨c, b', _, _, he⟩
  · exact h
  · exact absurd (by rw [he]) (hn w.nextHandle c.token)

theorem entryOrInsert_guards_of_not_guard {w : World} (hg : w.guards = []) (ty t : Nat) (bv : Bool)
    (hn : ∀ h t', (w.entryOrInsert ty t bv).2 ≠ .guard h t') : (w.entryOrInsert ty t bv).1.guards = [] := by
  revert hn
  unfold entryOrInsert
  simp only []
  cases hk : w.get ⟨ty, 0⟩ with
  | some c =>
    simp only []
    intro hn
    rw [fetchCore_guards_of_not_guard _ _ _ _ hn]
    cases bv <;> exact hg
  | none =>
    simp only []
    intro hn
    rw [fetchCore_guards_of_not_guard _ _ _ _ hn]
    exact hg

theorem entryScoped_inv {w : World} (hw : Inv w) (hg : w.guards = []) (ty t : Nat) (bv : Bool) :
    Inv (w.entryScoped ty t bv).1 ∧ (w.entryScoped ty t bv).1.guards = [] := by
  have h1 := entryOrInsert_inv hw hg ty t bv
  have h2 := entryOrInsert_guard_nil hg ty t bv
  have h3 := entryOrInsert_guards_of_not_guard hg ty t bv
  unfold entryScoped
  generalize w.entryOrInsert ty t bv = r at h1 h2 h3
  obtain ⟨w', o⟩ := r
  cases o with
  | guard h t' => exact ⟨release_inv h1 h, h2 h t' rfl⟩
  | unit => exact ⟨h1, h3 (by intro _ _ hc; cases hc)⟩
  | bool b => exact ⟨h1, h3 (by intro _ _ hc; cases hc)⟩
  | none => exact ⟨h1, h3 (by intro _ _ hc; cases hc)⟩
  | value _ => exact ⟨h1, h3 (by intro _ _ hc; cases hc)⟩
  | seen _ => exact ⟨h1, h3 (by intro _ _ hc; cases hc)⟩
  | data _ => exact ⟨h1, h3 (by intro _ _ hc; cases hc)⟩
  | panic _ => exact ⟨h1, h3 (by intro _ _ hc; cases hc)⟩
  | scopeDone _ _ => exact ⟨h1, h3 (by intro _ _ hc; cases hc)⟩
  | unwound _ => exact ⟨h1, h3 (by intro _ _ hc; cases hc)⟩

theorem setup_inv {w : World} (hw : Inv w) (hg : w.guards = []) (items : List SdItem) (toks : List Nat) :
    Inv (w.setup items toks).1 ∧ (w.setup items toks).1.guards = [] := by
  induction items generalizing w toks with
  | nil => exact ⟨hw, hg⟩
  | cons it rest ih =>
    unfold World.setup
    by_cases hd : (it.dflt && !it.opt) = true
    · rw [if_pos hd]
      cases hk : w.get ⟨it.ty, 0⟩ with
      | some c =>
        have := entryScoped_inv hw hg it.ty 0 false
        exact ih this.1 this.2 _
      | none =>
        cases toks with
        | nil => exact ih hw hg _
        | cons t toks' =>
          have := entryScoped_inv hw hg it.ty t false
          exact ih this.1 this.2 _
    · rw [if_neg hd]
      exact ih hw hg _

/-! ## composite fetch -/

theorem releaseData_inv {w : World} (hw : Inv w) (fs : List (Option (Nat × Nat))) : Inv (w.releaseData fs) := by
  induction fs generalizing w with
  | nil => exact hw
  | cons f rest ih =>
    cases f with
    | none => exact ih hw
    | some p => exact ih (release_inv hw p.1)

theorem releaseData_handles {w : World} (hw : HandlesOk w) (fs : List (Option (Nat × Nat))) :
    HandlesOk (w.releaseData fs) := by
  induction fs generalizing w with
  | nil => exact hw
  | cons f rest ih =>
    cases f with
    | none => exact ih hw
    | some p => exact ih (release_handles hw p.1)

/-- shape of one step of `sysData`, with the case analysis of `fetchCore` done -/
theorem sysData_cons (w : World) (it : SdItem) (rest : List SdItem) :
    (w.fetchCore ⟨it.ty, 0⟩ it.write .typed (!it.opt) = (w, .none) ∧ w.get ⟨it.ty, 0⟩ = none ∧ it.opt = true ∧
        w.sysData (it :: rest) =
          (match w.sysData rest with
            | (w2, .data fs) => (w2, .data (none :: fs))
            | r => r)) ∨
    (∃ p, w.fetchCore ⟨it.ty, 0⟩ it.write .typed (!it.opt) = (w, .panic p) ∧ w.sysData (it :: rest) = (w, .panic p)) ∨
    (∃ c b', w.get ⟨it.ty, 0⟩ = some c ∧ tryBorrow c.borrow it.write = some b' ∧
      w.sysData (it :: rest) =
        (match sysData { w with cells := setCell ⟨it.ty, 0⟩ { c with borrow := b' } w.cells,
                                guards := w.guards ++ [(w.nextHandle, ⟨⟨it.ty, 0⟩, it.write⟩)],
                                nextHandle := w.nextHandle + 1 } rest with
          | (w2, .data fs) => (w2, .data (some (w.nextHandle, c.token) :: fs))
          | (w2, o) => (release w2 w.nextHandle, o))) := by
  rcases fetchCore_cases w ⟨it.ty, 0⟩ it.write .typed (!it.opt) with ⟨h1, ⟨hk, h2⟩ | ⟨c, hk, hb, h2⟩⟩ | ⟨c, b', hc, hb, he⟩
  · rcases Bool.eq_false_or_eq_true it.opt with ho | ho
    · left
      have he : w.fetchCore ⟨it.ty, 0⟩ it.write .typed (!it.opt) = (w, .none) := by
        apply Prod.ext h1; rw [h2]; simp [ho]
      exact ⟨he, hk, ho, by rw [sysData, he] <;> rfl⟩
    · right; left
      have he : w.fetchCore ⟨it.ty, 0⟩ it.write .typed (!it.opt) = (w, .panic .absent) := by
        apply Prod.ext h1; rw [h2]; simp [ho]
      exact ⟨.absent, he, by rw [sysData, he] <;> rfl⟩
  · right; left
    have he : w.fetchCore ⟨it.ty, 0⟩ it.write .typed (!it.opt) = (w, .panic (borrowPanic .typed c.borrow it.write)) :=
      Prod.ext h1 h2
    exact ⟨_, he, by rw [sysData, he] <;> rfl⟩
  · right; right
    exact ⟨c, b', hc, hb, by rw [sysData, he] <;> rfl⟩

theorem sysData_inv {w : World} (hw : Inv w) (items : List SdItem) : Inv (w.sysData items).1 := by
  induction items generalizing w with
  | nil => exact hw
  | cons it rest ih =>
    rcases sysData_cons w it rest with ⟨_, _, _, he⟩ | ⟨p, _, he⟩ | ⟨c, b', hc, hb, he⟩
    · rw [he]
      have := ih hw
      generalize w.sysData rest = r at this
      obtain ⟨w2, o⟩ := r
      cases o <;> exact this
    · rw [he]; exact hw
    · rw [he]
      have := ih (inv_acquire hw hc hb)
      generalize sysData _ rest = r at this
      obtain ⟨w2, o⟩ := r
      cases o <;> first | exact this | exact release_inv this _

theorem sysData_handles {w : World} (hw : HandlesOk w) (items : List SdItem) : HandlesOk (w.sysData items).1 := by
  induction items generalizing w with
  | nil => exact hw
  | cons it rest ih =>
    rcases sysData_cons w it rest with ⟨_, _, _, he⟩ | ⟨p, _, he⟩ | ⟨c, b', hc, hb, he⟩
    · rw [he]
      have := ih hw
      generalize w.sysData rest = r at this
      obtain ⟨w2, o⟩ := r
      cases o <;> exact this
    · rw [he]; exact hw
    · rw [he]
      have h1 := fetchCore_handles hw ⟨it.ty, 0⟩ it.write .typed (!it.opt)
      rw [fetchCore_ok _ _ _ _ _ hc hb] at h1
      have := ih h1
      generalize sysData _ rest = r at this
      obtain ⟨w2, o⟩ := r
      cases o <;> first | exact this | exact release_handles this _

/-- `sysData` answers a data value or a panic, nothing else -/
theorem sysData_out (w : World) (items : List SdItem) :
    (∃ fs, (w.sysData items).2 = .data fs) ∨ (∃ p, (w.sysData items).2 = .panic p) := by
  induction items generalizing w with
  | nil => left; exact ⟨[], rfl⟩
  | cons it rest ih =>
    rcases sysData_cons w it rest with ⟨_, _, _, he⟩ | ⟨p, _, he⟩ | ⟨c, b', hc, hb, he⟩
    · rw [he]
      rcases ih w with ⟨fs, h⟩ | ⟨p, h⟩
      · left; generalize w.sysData rest = r at h; obtain ⟨w2, o⟩ := r; simp at h; subst h; exact ⟨_, rfl⟩
      · right; generalize w.sysData rest = r at h; obtain ⟨w2, o⟩ := r; simp at h; subst h; exact ⟨_, rfl⟩
    · right; rw [he]; exact ⟨p, rfl⟩
    · rw [he]
      rcases ih { w with cells := setCell ⟨it.ty, 0⟩ { c with borrow := b' } w.cells,
                         guards := w.guards ++ [(w.nextHandle, ⟨⟨it.ty, 0⟩, it.write⟩)],
                         nextHandle := w.nextHandle + 1 } with ⟨fs, h⟩ | ⟨p, h⟩
      · left; generalize sysData _ rest = r at h; obtain ⟨w2, o⟩ := r; simp at h; subst h; exact ⟨_, rfl⟩
      · right; generalize sysData _ rest = r at h; obtain ⟨w2, o⟩ := r; simp at h; subst h; exact ⟨_, rfl⟩

/-- **unwinding**: a composite fetch that panics has released every guard it had taken — both
tables are exactly as before the call -/
theorem sysData_panic_frame {w : World} (hw : Inv w) (hh : HandlesOk w) (items : List SdItem) (p : WPanic)
    (hp : (w.sysData items).2 = .panic p) :
    (w.sysData items).1.cells = w.cells ∧ (w.sysData items).1.guards = w.guards := by
  induction items generalizing w with
  | nil => simp [sysData] at hp
  | cons it rest ih =>
    rcases sysData_cons w it rest with ⟨_, _, _, he⟩ | ⟨p', _, he⟩ | ⟨c, b', hc, hb, he⟩
    · rw [he] at hp ⊢
      have := ih hw hh
      generalize w.sysData rest = r at this hp
      obtain ⟨w2, o⟩ := r
      cases o <;> first | exact this hp | cases hp
    · rw [he]; exact ⟨rfl, rfl⟩
    · rw [he] at hp ⊢
      have hw1 := inv_acquire hw hc hb
      have hh1 := fetchCore_handles hh ⟨it.ty, 0⟩ it.write .typed (!it.opt)
      rw [fetchCore_ok _ _ _ _ _ hc hb] at hh1
      have := ih hw1 hh1
      have hrt := acquire_release hw hh hc hb
      generalize sysData _ rest = r at this hp
      obtain ⟨w2, o⟩ := r
      cases o with
      | data fs => cases hp
      | panic p' =>
        obtain ⟨e1, e2⟩ := this hp
        obtain ⟨r1, r2⟩ := release_cells_guards e1 e2 w.nextHandle
        exact ⟨r1.trans hrt.1, r2.trans hrt.2⟩
      | unit => cases hp
      | bool _ => cases hp
      | guard _ _ => cases hp
      | none => cases hp
      | value _ => cases hp
      | seen _ => cases hp
      | scopeDone _ _ => cases hp
      | unwound _ => cases hp

/-! ## meta iterators -/

theorem metaScan_cases (w : World) (excl : Bool) (tys : List Nat) (idx : Nat) :
    ((w.metaScan excl tys idx).1 = w ∧ (w.metaScan excl tys idx).2.1 = .none ∧
        ∀ ty ∈ tys, w.get ⟨ty, 0⟩ = none) ∨
    (∃ pre ty post, tys = pre ++ ty :: post ∧ (∀ t ∈ pre, w.get ⟨t, 0⟩ = none) ∧ (w.get ⟨ty, 0⟩).isSome ∧
      (w.metaScan excl tys idx).1 = (w.fetchCore ⟨ty, 0⟩ excl .byId false).1 ∧
      (w.metaScan excl tys idx).2.1 = (w.fetchCore ⟨ty, 0⟩ excl .byId false).2 ∧
      (w.metaScan excl tys idx).2.2 = idx + pre.length + 1) := by
  induction tys generalizing idx with
  | nil => left; simp [metaScan]
  | cons ty rest ih =>
    cases hk : w.get ⟨ty, 0⟩ with
    | none =>
      simp only [metaScan, hk]
      rcases ih (idx + 1) with ⟨h1, h2, h3⟩ | ⟨pre, ty', post, he, hpre, hty, h1, h2, h3⟩
      · left; refine ⟨h1, h2, ?_⟩
        intro t ht
        rcases List.mem_cons.mp ht with rfl | ht
        · exact hk
        · exact h3 t ht
      · right
        refine ⟨ty :: pre, ty', post, by simp [he], ?_, hty, h1, h2, by simp [h3]; omega⟩
        intro t ht
        rcases List.mem_cons.mp ht with rfl | ht
        · exact hk
        · exact hpre t ht
    | some c =>
      right
      exact ⟨[], ty, rest, rfl, by simp, by simp [hk], by simp [metaScan, hk], by simp [metaScan, hk],
        by simp [metaScan, hk]⟩

theorem metaNext_inv {w : World} (hw : Inv w) (tys : List Nat) (idx : Nat) (excl : Bool) :
    Inv (w.metaNext tys idx excl).1 := by
  unfold metaNext
  rcases metaScan_cases w excl (tys.drop idx) idx with ⟨h1, _⟩ | ⟨_, ty, _, _, _, _, h1, _⟩
  · rw [h1]; exact hw
  · rw [h1]; exact fetchCore_inv hw _ _ _ _

theorem metaNext_handles {w : World} (hw : HandlesOk w) (tys : List Nat) (idx : Nat) (excl : Bool) :
    HandlesOk (w.metaNext tys idx excl).1 := by
  unfold metaNext
  rcases metaScan_cases w excl (tys.drop idx) idx with ⟨h1, _⟩ | ⟨_, ty, _, _, _, _, h1, _⟩
  · rw [h1]; exact hw
  · rw [h1]; exact fetchCore_handles hw _ _ _ _

theorem cloneGuard_inv {w : World} (hw : Inv w) (h : Nat) : Inv (w.cloneGuard h).1 := by
  unfold cloneGuard
  split
  · split
    · exact hw
    · exact fetchCore_inv hw _ _ _ _
  · exact hw

theorem cloneGuard_handles {w : World} (hw : HandlesOk w) (h : Nat) : HandlesOk (w.cloneGuard h).1 := by
  unfold cloneGuard
  split
  · split
    · exact hw
    · exact fetchCore_handles hw _ _ _ _
  · exact hw

theorem handles_of_nil {w : World} (hg : w.guards = []) : HandlesOk w := by
  simp [HandlesOk, hg]

/-! ## closures that hold guards: everything they take is released again -/

/-- the two tables agree -/
def CG (a b : World) : Prop := a.cells = b.cells ∧ a.guards = b.guards

theorem CG.refl (w : World) : CG w w := ⟨rfl, rfl⟩
theorem CG.trans {a b c : World} (h1 : CG a b) (h2 : CG b c) : CG a c := ⟨h1.1.trans h2.1, h1.2.trans h2.2⟩

theorem releaseAll_append (w : World) (l1 l2 : List Nat) :
    releaseAll w (l1 ++ l2) = releaseAll (releaseAll w l1) l2 := by
  induction l1 generalizing w with
  | nil => rfl
  | cons h t ih => exact ih _

theorem releaseAll_inv {w : World} (hw : Inv w) (hs : List Nat) : Inv (releaseAll w hs) := by
  induction hs generalizing w with
  | nil => exact hw
  | cons h t ih => exact ih (release_inv hw h)

theorem releaseAll_handles {w : World} (hw : HandlesOk w) (hs : List Nat) : HandlesOk (releaseAll w hs) := by
  induction hs generalizing w with
  | nil => exact hw
  | cons h t ih => exact ih (release_handles hw h)

theorem releaseAll_cg {w1 w2 : World} (h : CG w2 w1) (hs : List Nat) : CG (releaseAll w2 hs) (releaseAll w1 hs) := by
  induction hs generalizing w1 w2 with
  | nil => exact h
  | cons x t ih => exact ih (release_cells_guards h.1 h.2 x)

/-- a fetch, whatever it answers, followed by the drop of the guard it may have returned leaves
both tables as they were -/
theorem fetchCore_release_frame {w : World} (hw : Inv w) (hh : HandlesOk w) (k : ResId) (excl : Bool) (f : Form)
    (orPanic : Bool) :
    CG (releaseAll (w.fetchCore k excl f orPanic).1 (handlesOf (w.fetchCore k excl f orPanic).2).reverse) w := by
  rcases fetchCore_cases w k excl f orPanic with ⟨h1, ⟨_, h2⟩ | ⟨c, _, _, h2⟩⟩ | ⟨c, b', hc, hb, he⟩
  · rw [h1, h2]; cases orPanic <;> exact CG.refl w
  · rw [h1, h2]; exact CG.refl w
  · rw [he]
    exact acquire_release hw hh hc hb

/-- a composite fetch that succeeded, followed by the drop of its fields (last first) -/
theorem sysData_data_release {w : World} (hw : Inv w) (hh : HandlesOk w) (items : List SdItem)
    (fs : List (Option (Nat × Nat))) (h : (w.sysData items).2 = .data fs) :
    CG (releaseAll (w.sysData items).1 (handlesOf (.data fs)).reverse) w := by
  induction items generalizing w fs with
  | nil => simp [sysData] at h; subst h; exact CG.refl w
  | cons it rest ih =>
    rcases sysData_cons w it rest with ⟨_, _, _, he⟩ | ⟨p, _, he⟩ | ⟨c, b', hc, hb, he⟩
    · rw [he] at h ⊢
      have := ih hw hh
      generalize w.sysData rest = r at this h ⊢
      obtain ⟨w2, o⟩ := r
      cases o with
      | data fs0 =>
        simp at h; subst h
        have h2 := this fs0 rfl
        simpa [handlesOf] using h2
      | _ => simp at h
    · rw [he] at h; cases h
    · rw [he] at h ⊢
      have hw1 := inv_acquire hw hc hb
      have hh1 := fetchCore_handles hh ⟨it.ty, 0⟩ it.write .typed (!it.opt)
      rw [fetchCore_ok _ _ _ _ _ hc hb] at hh1
      have := ih hw1 hh1
      have hrt := acquire_release hw hh hc hb
      generalize sysData _ rest = r at this h ⊢
      obtain ⟨w2, o⟩ := r
      cases o with
      | data fs0 =>
        simp at h; subst h
        have h2 := this fs0 rfl
        simp only [handlesOf, List.filterMap_cons, Option.map_some, List.reverse_cons, releaseAll_append] at h2 ⊢
        exact (releaseAll_cg h2 [w.nextHandle]).trans hrt
      | _ => simp at h

theorem sysData_release_frame {w : World} (hw : Inv w) (hh : HandlesOk w) (items : List SdItem) :
    CG (releaseAll (w.sysData items).1 (handlesOf (w.sysData items).2).reverse) w := by
  rcases sysData_out w items with ⟨fs, h⟩ | ⟨p, h⟩
  · rw [h]; exact sysData_data_release hw hh items fs h
  · rw [h]; exact sysData_panic_frame hw hh items p h

theorem cloneGuard_release_frame {w : World} (hw : Inv w) (hh : HandlesOk w) (h : Nat) :
    CG (releaseAll (w.cloneGuard h).1 (handlesOf (w.cloneGuard h).2).reverse) w := by
  unfold cloneGuard
  split
  · split
    · exact CG.refl w
    · exact fetchCore_release_frame hw hh _ _ _ _
  · exact CG.refl w

theorem metaNext_release_frame {w : World} (hw : Inv w) (hh : HandlesOk w) (tys : List Nat) (idx : Nat) (excl : Bool) :
    CG (releaseAll (w.metaNext tys idx excl).1 (handlesOf (w.metaNext tys idx excl).2.1).reverse) w := by
  unfold metaNext
  rcases metaScan_cases w excl (tys.drop idx) idx with ⟨h1, h2, _⟩ | ⟨_, ty, _, _, _, _, h1, h2, _⟩
  · rw [h1, h2]; exact CG.refl w
  · rw [h1, h2]; exact fetchCore_release_frame hw hh _ _ _ _

/-- **one acquisition inside a closure**: the invariant survives, and dropping what was acquired
(last first) restores both tables -/
theorem take_release_frame {w : World} (hw : Inv w) (hh : HandlesOk w) (tys : List Nat) (ri wi : Nat)
    (prior : List Nat) (t : Take) :
    Inv (t.run w tys ri wi prior).1 ∧ HandlesOk (t.run w tys ri wi prior).1 ∧
    CG (releaseAll (t.run w tys ri wi prior).1 (handlesOf (t.run w tys ri wi prior).2).reverse) w := by
  cases t with
  | fetch ty excl orPanic =>
    exact ⟨fetchCore_inv hw _ _ _ _, fetchCore_handles hh _ _ _ _, fetchCore_release_frame hw hh _ _ _ _⟩
  | byId a k excl =>
    cases excl
    · simp only [Take.run, Bool.false_eq_true, if_false, tryFetchById]
      split
      · exact ⟨hw, hh, CG.refl w⟩
      · exact ⟨fetchCore_inv hw _ _ _ _, fetchCore_handles hh _ _ _ _, fetchCore_release_frame hw hh _ _ _ _⟩
    · simp only [Take.run, if_true, tryFetchMutById]
      split
      · exact ⟨hw, hh, CG.refl w⟩
      · exact ⟨fetchCore_inv hw _ _ _ _, fetchCore_handles hh _ _ _ _, fetchCore_release_frame hw hh _ _ _ _⟩
  | data items => exact ⟨sysData_inv hw items, sysData_handles hh items, sysData_release_frame hw hh items⟩
  | iter excl =>
    exact ⟨metaNext_inv hw _ _ _, metaNext_handles hh _ _ _, metaNext_release_frame hw hh _ _ _⟩
  | cloneLocal i =>
    simp only [Take.run]
    split
    · exact ⟨cloneGuard_inv hw _, cloneGuard_handles hh _, cloneGuard_release_frame hw hh _⟩
    · exact ⟨hw, hh, CG.refl w⟩
  | cloneOuter h => exact ⟨cloneGuard_inv hw _, cloneGuard_handles hh _, cloneGuard_release_frame hw hh _⟩

/-- the body of a closure: at its end — or at the refused fetch — dropping the guards it owns,
last taken first, restores both tables -/
theorem scopeBody_frame (tys : List Nat) (takes : List Take) {w : World} (hw : Inv w) (hh : HandlesOk w)
    (ri wi : Nat) (prior : List Nat) :
    Inv (scopeBody tys takes w ri wi prior).1 ∧ HandlesOk (scopeBody tys takes w ri wi prior).1 ∧
    CG (releaseAll (scopeBody tys takes w ri wi prior).1 (scopeBody tys takes w ri wi prior).2.1.reverse) w := by
  induction takes generalizing w ri wi prior with
  | nil => exact ⟨hw, hh, CG.refl w⟩
  | cons t rest ih =>
    have ht := take_release_frame hw hh tys ri wi prior t
    unfold scopeBody
    generalize t.run w tys ri wi prior = r at ht
    obtain ⟨w1, o⟩ := r
    have key : ∀ (_ : ∀ p, o ≠ .panic p),
        let b := scopeBody tys rest w1 (t.advance w tys ri wi).1 (t.advance w tys ri wi).2 (prior ++ handlesOf o)
        Inv b.1 ∧ HandlesOk b.1 ∧ CG (releaseAll b.1 (handlesOf o ++ b.2.1).reverse) w := by
      intro _ b
      have hb := ih ht.1 ht.2.1 (t.advance w tys ri wi).1 (t.advance w tys ri wi).2 (prior ++ handlesOf o)
      refine ⟨hb.1, hb.2.1, ?_⟩
      rw [List.reverse_append, releaseAll_append]
      exact (releaseAll_cg hb.2.2 _).trans ht.2.2
    cases o with
    | panic p => exact ⟨ht.1, ht.2.1, ht.2.2⟩
    | unit => exact key (by intro p hc; cases hc)
    | bool _ => exact key (by intro p hc; cases hc)
    | guard _ _ => exact key (by intro p hc; cases hc)
    | none => exact key (by intro p hc; cases hc)
    | value _ => exact key (by intro p hc; cases hc)
    | seen _ => exact key (by intro p hc; cases hc)
    | data _ => exact key (by intro p hc; cases hc)
    | scopeDone _ _ => exact key (by intro p hc; cases hc)
    | unwound _ => exact key (by intro p hc; cases hc)

/-- the invariant alone needs no assumption on handles -/
theorem take_inv {w : World} (hw : Inv w) (tys : List Nat) (ri wi : Nat) (prior : List Nat) (t : Take) :
    Inv (t.run w tys ri wi prior).1 := by
  cases t with
  | fetch ty excl orPanic => exact fetchCore_inv hw _ _ _ _
  | byId a k excl =>
    cases excl
    · simp only [Take.run, Bool.false_eq_true, if_false, tryFetchById]
      split
      · exact hw
      · exact fetchCore_inv hw _ _ _ _
    · simp only [Take.run, if_true, tryFetchMutById]
      split
      · exact hw
      · exact fetchCore_inv hw _ _ _ _
  | data items => exact sysData_inv hw items
  | iter excl => exact metaNext_inv hw _ _ _
  | cloneLocal i =>
    simp only [Take.run]
    split
    · exact cloneGuard_inv hw _
    · exact hw
  | cloneOuter h => exact cloneGuard_inv hw _

theorem scopeBody_inv (tys : List Nat) (takes : List Take) {w : World} (hw : Inv w)
    (ri wi : Nat) (prior : List Nat) : Inv (scopeBody tys takes w ri wi prior).1 := by
  induction takes generalizing w ri wi prior with
  | nil => exact hw
  | cons t rest ih =>
    have ht := take_inv hw tys ri wi prior t
    unfold scopeBody
    generalize t.run w tys ri wi prior = r at ht
    obtain ⟨w1, o⟩ := r
    cases o <;> first | exact ht | exact ih ht _ _ _

/-- **`scope_frame`**: a closure that takes guards of any kind, in any order, and then returns,
panics, or is refused a fetch half-way, leaves — once it has been left, by return or by unwinding —
every cell and every guard that lives outside it exactly as they were -/
theorem scope_frame {w : World} (hw : Inv w) (hh : HandlesOk w) (tys : List Nat) (takes : List Take) (e : Bool) :
    (w.scope tys takes e).1.cells = w.cells ∧ (w.scope tys takes e).1.guards = w.guards :=
  (scopeBody_frame tys takes hw hh 0 0 []).2.2

theorem scope_inv {w : World} (hw : Inv w) (hh : HandlesOk w) (tys : List Nat) (takes : List Take) (e : Bool) :
    Inv (w.scope tys takes e).1 ∧ HandlesOk (w.scope tys takes e).1 :=
  ⟨releaseAll_inv (scopeBody_frame tys takes hw hh 0 0 []).1 _,
   releaseAll_handles (scopeBody_frame tys takes hw hh 0 0 []).2.1 _⟩

/-! ## faults inside `&mut` calls: the state is the one of the plain call -/

theorem insertFused_fst (w : World) (a : Nat) (k : ResId) (t : Nat) :
    (w.insertFused a k t).1 = (w.insertById a k t).1 := by
  unfold insertFused
  generalize w.insertById a k t = r
  obtain ⟨w', o⟩ := r
  cases o <;> cases w.get k <;> rfl

theorem entryFault_guardHeld_fst (w : World) (ty t : Nat) (bv : Bool) :
    (w.entryFault ty t (.guardHeld bv)).1 = (w.entryScoped ty t bv).1 := by
  simp only [entryFault, entryScoped]
  generalize w.entryOrInsert ty t bv = r
  obtain ⟨w', o⟩ := r
  cases o <;> rfl

theorem execFault_fst (w : World) (items : List SdItem) (toks : List Nat) :
    (w.execFault items toks).1 = (w.exec items toks).1 := by
  unfold execFault exec
  generalize sysData _ items = r
  obtain ⟨w', o⟩ := r
  cases o <;> rfl

theorem entryFault_inv {w : World} (hw : Inv w) (hg : w.guards = []) (ty t : Nat) (f : EntryFault) :
    Inv (w.entryFault ty t f).1 ∧ (w.entryFault ty t f).1.guards = [] := by
  cases f with
  | guardHeld bv => rw [entryFault_guardHeld_fst]; exact entryScoped_inv hw hg ty t bv
  | valueDrop =>
    unfold entryFault
    cases hk : w.get ⟨ty, 0⟩ with
    | some c => exact ⟨hw, hg⟩
    | none => exact entryScoped_inv hw hg ty t true
  | closure =>
    unfold entryFault
    cases hk : w.get ⟨ty, 0⟩ with
    | some c => exact entryScoped_inv hw hg ty t false
    | none => exact ⟨hw, hg⟩

theorem exec_inv {w : World} (hw : Inv w) (hg : w.guards = []) (items : List SdItem) (toks : List Nat) :
    Inv (w.exec items toks).1 ∧ HandlesOk (w.exec items toks).1 := by
  have h1 := setup_inv hw hg items toks
  have h2 := sysData_inv h1.1 items
  have h3 := sysData_handles (handles_of_nil h1.2) items
  unfold exec
  generalize sysData _ items = r at h2 h3
  obtain ⟨w2, o⟩ := r
  cases o <;> first | exact ⟨h2, h3⟩ | exact ⟨releaseData_inv h2 _, releaseData_handles h3 _⟩

/-! ## every operation -/


/-- **`step_preserves_inv`** -/
theorem step_inv {w : World} (hw : Inv w) (op : Op) (hl : op.isMut = true → w.guards = []) :
    Inv (w.step op).1 := by
  cases op with
  | insert ty tok => exact (insertById_inv hw (hl rfl) _ _ _).1
  | insertById a k tok => exact (insertById_inv hw (hl rfl) _ _ _).1
  | remove ty => exact (removeById_inv hw (hl rfl) _ _).1
  | removeById a k => exact (removeById_inv hw (hl rfl) _ _).1
  | entry ty tok bv => exact (entryScoped_inv hw (hl rfl) _ _ _).1
  | hasValue ty => exact hw
  | hasValueRaw k => exact hw
  | getMut ty => exact hw
  | getMutRaw k => exact hw
  | setup items toks => exact (setup_inv hw (hl rfl) _ _).1
  | exec items toks =>
    have h1 := setup_inv hw (hl rfl) items toks
    have h2 := sysData_inv h1.1 items
    show Inv (w.exec items toks).1
    unfold exec
    generalize sysData _ items = r at h2
    obtain ⟨w2, o⟩ := r
    cases o <;> first | exact h2 | exact releaseData_inv h2 _
  | fetch ty => exact fetchCore_inv hw _ _ _ _
  | fetchMut ty => exact fetchCore_inv hw _ _ _ _
  | tryFetch ty => exact fetchCore_inv hw _ _ _ _
  | tryFetchMut ty => exact fetchCore_inv hw _ _ _ _
  | tryFetchById a k =>
    show Inv (w.tryFetchById a k).1
    unfold tryFetchById; split
    · exact hw
    · exact fetchCore_inv hw _ _ _ _
  | tryFetchMutById a k =>
    show Inv (w.tryFetchMutById a k).1
    unfold tryFetchMutById; split
    · exact hw
    · exact fetchCore_inv hw _ _ _ _
  | systemData items => exact sysData_inv hw items
  | metaNext tys idx x => exact metaNext_inv hw tys idx x
  | clone h => exact cloneGuard_inv hw h
  | drop h => exact release_inv hw h
  | scope tys takes e => exact releaseAll_inv (scopeBody_inv tys takes hw 0 0 []) _
  | insertFused a k tok =>
    show Inv (w.insertFused a k tok).1
    rw [insertFused_fst]; exact (insertById_inv hw (hl rfl) _ _ _).1
  | entryFault ty tok f => exact (entryFault_inv hw (hl rfl) _ _ _).1
  | execFault items toks =>
    show Inv (w.execFault items toks).1
    rw [execFault_fst]; exact (exec_inv hw (hl rfl) items toks).1

theorem step_handles {w : World} (hw : HandlesOk w) (hi : Inv w) (op : Op) (hl : op.isMut = true → w.guards = []) :
    HandlesOk (w.step op).1 := by
  cases op with
  | insert ty tok => exact handles_of_nil (insertById_inv hi (hl rfl) _ _ _).2
  | insertById a k tok => exact handles_of_nil (insertById_inv hi (hl rfl) _ _ _).2
  | remove ty => exact handles_of_nil (removeById_inv hi (hl rfl) _ _).2
  | removeById a k => exact handles_of_nil (removeById_inv hi (hl rfl) _ _).2
  | entry ty tok bv => exact handles_of_nil (entryScoped_inv hi (hl rfl) _ _ _).2
  | hasValue ty => exact hw
  | hasValueRaw k => exact hw
  | getMut ty => exact hw
  | getMutRaw k => exact hw
  | setup items toks => exact handles_of_nil (setup_inv hi (hl rfl) _ _).2
  | exec items toks =>
    have h1 := setup_inv hi (hl rfl) items toks
    have h2 := sysData_handles (handles_of_nil h1.2) items
    show HandlesOk (w.exec items toks).1
    unfold exec
    generalize sysData _ items = r at h2
    obtain ⟨w2, o⟩ := r
    cases o <;> first | exact h2 | exact releaseData_handles h2 _
  | fetch ty => exact fetchCore_handles hw _ _ _ _
  | fetchMut ty => exact fetchCore_handles hw _ _ _ _
  | tryFetch ty => exact fetchCore_handles hw _ _ _ _
  | tryFetchMut ty => exact fetchCore_handles hw _ _ _ _
  | tryFetchById a k =>
    show HandlesOk (w.tryFetchById a k).1
    unfold tryFetchById; split
    · exact hw
    · exact fetchCore_handles hw _ _ _ _
  | tryFetchMutById a k =>
    show HandlesOk (w.tryFetchMutById a k).1
    unfold tryFetchMutById; split
    · exact hw
    · exact fetchCore_handles hw _ _ _ _
  | systemData items => exact sysData_handles hw items
  | metaNext tys idx x => exact metaNext_handles hw tys idx x
  | clone h => exact cloneGuard_handles hw h
  | drop h => exact release_handles hw h
  | scope tys takes e => exact releaseAll_handles (scopeBody_frame tys takes hi hw 0 0 []).2.1 _
  | insertFused a k tok =>
    show HandlesOk (w.insertFused a k tok).1
    rw [insertFused_fst]; exact handles_of_nil (insertById_inv hi (hl rfl) _ _ _).2
  | entryFault ty tok f => exact handles_of_nil (entryFault_inv hi (hl rfl) _ _ _).2
  | execFault items toks =>
    show HandlesOk (w.execFault items toks).1
    rw [execFault_fst]; exact (exec_inv hi (hl rfl) items toks).2

theorem run_inv {w : World} (hw : Inv w) (hh : HandlesOk w) (ops : List Op) (hl : Legal w ops) :
    Inv (w.run ops) ∧ HandlesOk (w.run ops) := by
  induction ops generalizing w with
  | nil => exact ⟨hw, hh⟩
  | cons op ops ih =>
    exact ih (step_inv hw op hl.1) (step_handles hh hw op hl.1) hl.2

theorem inv_empty : Inv {} := by
  intro r; simp [World.get, lookupCell, World.nLive, BorrowOk]

theorem handles_empty : HandlesOk {} := by simp [HandlesOk]

end Shred
