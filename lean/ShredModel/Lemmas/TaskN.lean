import ShredModel.Lemmas.Exec
/-! n-ary `seq` / `par` and what `WF`, `Before`, `sys` look like for them. -/
namespace Shred
variable {ι : Type} [DecidableEq ι]
open Task

theorem sys_seqN (ts : List (Task ι)) : (seqN ts).sys = ts.flatMap Task.sys := by
  induction ts with
  | nil => rfl
  | cons t ts ih => simp [seqN, Task.sys, ih]

theorem sys_parN (ts : List (Task ι)) : (parN ts).sys = ts.flatMap Task.sys := by
  induction ts with
  | nil => rfl
  | cons t ts ih => simp [parN, Task.sys, ih]

theorem wf_seqN {C : ι → ι → Prop} (ts : List (Task ι)) (h : ∀ t, t ∈ ts → WF C t) : WF C (seqN ts) := by
  induction ts with
  | nil => trivial
  | cons t ts ih =>
    exact ⟨h t (by simp), ih (fun t' ht' => h t' (by simp [ht']))⟩

theorem wf_parN {C : ι → ι → Prop} (ts : List (Task ι)) (h : ∀ t, t ∈ ts → WF C t)
    (hp : ts.Pairwise fun a b => ∀ x, x ∈ a.sys → ∀ y, y ∈ b.sys → C x y) : WF C (parN ts) := by
  induction ts with
  | nil => trivial
  | cons t ts ih =>
    obtain ⟨hhead, htail⟩ := List.pairwise_cons.mp hp
    refine ⟨?_, h t (by simp), ih (fun t' ht' => h t' (by simp [ht'])) htail⟩
    intro x hx y hy
    rw [sys_parN] at hy
    obtain ⟨b, hb, hyb⟩ := List.mem_flatMap.mp hy
    exact hhead b hb x hx y hyb

theorem before_seqN_of_mem {ts : List (Task ι)} {a : Task ι} {x y : ι} (ha : a ∈ ts)
    (h : Before a x y) : Before (seqN ts) x y := by
  induction ts with
  | nil => cases ha
  | cons t ts ih =>
    rcases List.mem_cons.mp ha with rfl | ha'
    · exact .seqL h
    · exact .seqR (ih ha')

theorem before_parN_of_mem {ts : List (Task ι)} {a : Task ι} {x y : ι} (ha : a ∈ ts)
    (h : Before a x y) : Before (parN ts) x y := by
  induction ts with
  | nil => cases ha
  | cons t ts ih =>
    rcases List.mem_cons.mp ha with rfl | ha'
    · exact .parL h
    · exact .parR (ih ha')

/-- an element of an earlier child of an n-ary `seq` is before any element of a later child -/
theorem before_seqN_of_lt {ts : List (Task ι)} {i j : Nat} {a b : Task ι} {x y : ι}
    (hi : ts[i]? = some a) (hj : ts[j]? = some b) (hij : i < j) (hx : x ∈ a.sys) (hy : y ∈ b.sys) :
    Before (seqN ts) x y := by
  induction ts generalizing i j with
  | nil => simp at hi
  | cons t ts ih =>
    cases i with
    | zero =>
      simp at hi; subst hi
      cases j with
      | zero => omega
      | succ j =>
        simp at hj
        refine .here hx ?_
        rw [sys_seqN]
        exact List.mem_flatMap.mpr ⟨b, List.mem_of_getElem? hj, hy⟩
    | succ i =>
      cases j with
      | zero => omega
      | succ j =>
        simp at hi hj
        exact .seqR (ih hi hj (by omega))


/-- no batch scope anywhere in the task -/
def Task.NoScope : Task ι → Prop
  | .nil => True
  | .leaf _ => True
  | .seq a b => a.NoScope ∧ b.NoScope
  | .par a b => a.NoScope ∧ b.NoScope
  | .scope _ _ => False

theorem not_anc_of_noScope {t : Task ι} (h : t.NoScope) (x y : ι) : ¬ Anc t x y := by
  intro ha
  induction ha with
  | here _ => exact h
  | scope _ _ => exact h
  | seqL _ ih => exact ih h.1
  | seqR _ ih => exact ih h.2
  | parL _ ih => exact ih h.1
  | parR _ ih => exact ih h.2

theorem noScope_seqN (ts : List (Task ι)) (h : ∀ t, t ∈ ts → t.NoScope) : (seqN ts).NoScope := by
  induction ts with
  | nil => trivial
  | cons t ts ih => exact ⟨h t (by simp), ih (fun t' ht' => h t' (by simp [ht']))⟩

theorem noScope_parN (ts : List (Task ι)) (h : ∀ t, t ∈ ts → t.NoScope) : (parN ts).NoScope := by
  induction ts with
  | nil => trivial
  | cons t ts ih => exact ⟨h t (by simp), ih (fun t' ht' => h t' (by simp [ht']))⟩

end Shred
