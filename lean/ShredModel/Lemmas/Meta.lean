import ShredModel.Model.Meta
/-!
# Lemmas about the `MetaTable` model (C17)
-/
namespace Shred
namespace Meta
open MetaTable

/-! ## the index map -/

theorem lookup_append (m : List (Nat × Nat)) (k v x : Nat) :
    lookup (m ++ [(k, v)]) x =
      match lookup m x with
      | some i => some i
      | none => if k = x then some v else none := by
  induction m with
  | nil => simp [lookup]
  | cons p m ih =>
    obtain ⟨a, b⟩ := p
    simp only [List.cons_append, lookup]
    split
    · rfl
    · exact ih

/-- The representation invariant of the three parallel containers. -/
structure MetaInv (t : MetaTable) : Prop where
  /-- no type is stored twice -/
  nodup : t.tys.Nodup
  /-- position `i` of `vtable_fns` holds the attach function instantiated with `tys[i]`
  (a function is named by the type it was instantiated with); in particular equal lengths -/
  vt : t.vtableFns = t.tys
  /-- `indices.len() = tys.len()` -/
  len : t.indices.length = t.tys.length
  /-- `indices` maps exactly the stored types, each to its position -/
  idx : ∀ ty i, lookup t.indices ty = some i ↔ t.tys[i]? = some ty

theorem MetaInv.empty : MetaInv {} :=
  ⟨List.nodup_nil, rfl, rfl, by intro ty i; simp [lookup]⟩

theorem MetaInv.mem_iff {t : MetaTable} (h : MetaInv t) (ty : Nat) :
    ty ∈ t.tys ↔ ∃ i, lookup t.indices ty = some i := by
  constructor
  · intro hm
    obtain ⟨i, hi, he⟩ := List.getElem_of_mem hm
    exact ⟨i, (h.idx ty i).mpr (by simp [List.getElem?_eq_getElem hi, he])⟩
  · rintro ⟨i, hi⟩
    exact List.mem_of_getElem? ((h.idx ty i).mp hi)

theorem MetaInv.not_mem_iff {t : MetaTable} (h : MetaInv t) (ty : Nat) :
    ty ∉ t.tys ↔ lookup t.indices ty = none := by
  rw [h.mem_iff]
  cases lookup t.indices ty <;> simp

/-- `self.vtable_fns[ind] = vtable_fn` in `register` is in bounds -/
theorem register_index_in_bounds {t : MetaTable} (h : MetaInv t) {ty ind : Nat}
    (hl : lookup t.indices ty = some ind) : ind < t.vtableFns.length := by
  have := (h.idx ty ind).mp hl
  rw [h.vt]
  exact (List.getElem?_eq_some_iff.mp this).1

/-- on a repeated registration nothing changes (the function stored again is the one that was
there: it is determined by the type) -/
theorem register_of_mem {t : MetaTable} (h : MetaInv t) {ty : Nat} (hm : ty ∈ t.tys) :
    t.register ty = t := by
  obtain ⟨i, hi⟩ := (h.mem_iff ty).mp hm
  have hget := (h.idx ty i).mp hi
  obtain ⟨hlt, he⟩ := List.getElem?_eq_some_iff.mp hget
  unfold register
  simp only [hi]
  have : t.vtableFns.set i ty = t.vtableFns := by
    rw [h.vt]
    conv => lhs; rw [← he]
    exact List.set_getElem_self hlt
  rw [this]

theorem register_of_not_mem {t : MetaTable} (h : MetaInv t) {ty : Nat} (hm : ty ∉ t.tys) :
    t.register ty =
      { vtableFns := t.vtableFns ++ [ty], indices := t.indices ++ [(ty, t.indices.length)],
        tys := t.tys ++ [ty] } := by
  have := (h.not_mem_iff ty).mp hm
  unfold register
  simp only [this]

theorem register_tys {t : MetaTable} (h : MetaInv t) (ty : Nat) :
    (t.register ty).tys = if ty ∈ t.tys then t.tys else t.tys ++ [ty] := by
  by_cases hm : ty ∈ t.tys
  · rw [register_of_mem h hm, if_pos hm]
  · rw [register_of_not_mem h hm, if_neg hm]

/-- `register` keeps the invariant, whether the type is new or not -/
theorem MetaInv.register {t : MetaTable} (h : MetaInv t) (ty : Nat) : MetaInv (t.register ty) := by
  by_cases hm : ty ∈ t.tys
  · rw [register_of_mem h hm]; exact h
  · rw [register_of_not_mem h hm]
    have hnone := (h.not_mem_iff ty).mp hm
    refine ⟨?_, ?_, ?_, ?_⟩
    · simp only [List.nodup_append, List.nodup_cons, List.not_mem_nil, not_false_eq_true,
        List.nodup_nil, and_self, List.mem_cons, or_false, true_and]
      refine ⟨h.nodup, ?_⟩
      intro a ha b hb
      subst hb
      intro hab; subst hab; exact hm ha
    · simp only [h.vt]
    · simp [h.len]
    · intro x i
      simp only [lookup_append]
      cases hx : lookup t.indices x with
      | some j =>
        simp only []
        have hj := (h.idx x j).mp hx
        have hjlt := (List.getElem?_eq_some_iff.mp hj).1
        constructor
        · intro e; cases e
          rw [List.getElem?_append_left hjlt]; exact hj
        · intro e
          by_cases hi : i < t.tys.length
          · rw [List.getElem?_append_left hi] at e
            have := (h.idx x i).mpr e
            rw [hx] at this; exact this
          · rw [List.getElem?_append_right (by omega)] at e
            have hxe : ty = x := by
              cases hk : i - t.tys.length with
              | zero => rw [hk] at e; simpa using e
              | succ n => rw [hk] at e; simp at e
            subst hxe
            rw [hnone] at hx; cases hx
      | none =>
        simp only []
        constructor
        · intro e
          split at e
          · rename_i hxe
            cases e
            subst hxe
            rw [h.len, List.getElem?_append_right (by omega)]
            simp
          · cases e
        · intro e
          by_cases hi : i < t.tys.length
          · rw [List.getElem?_append_left hi] at e
            have := (h.idx x i).mpr e
            rw [hx] at this; cases this
          · rw [List.getElem?_append_right (by omega)] at e
            cases hk : i - t.tys.length with
            | zero =>
              rw [hk] at e
              have hxe : ty = x := by simpa using e
              rw [if_pos hxe, h.len]
              congr 1; omega
            | succ n => rw [hk] at e; simp at e

/-- **Invariance.** Every table reachable from an invariant one by any sequence of `register`
calls (repeats included) satisfies the invariant. -/
theorem MetaInv.registerAll {t : MetaTable} (h : MetaInv t) (regs : List Nat) :
    MetaInv (t.registerAll regs) := by
  induction regs generalizing t with
  | nil => exact h
  | cons r rs ih => exact ih (h.register r)

/-! ## first-registration order -/

/-- the specification of "first-registration order, once each": keep the first occurrence of
every element -/
def firstOccs : List Nat → List Nat
  | [] => []
  | x :: xs => x :: (firstOccs xs).filter (· ≠ x)

theorem mem_firstOccs (l : List Nat) (x : Nat) : x ∈ firstOccs l ↔ x ∈ l := by
  induction l with
  | nil => simp [firstOccs]
  | cons y ys ih =>
    simp only [firstOccs, List.mem_cons, List.mem_filter, ih, decide_eq_true_eq]
    by_cases h : x = y <;> simp [h]

theorem nodup_firstOccs (l : List Nat) : (firstOccs l).Nodup := by
  induction l with
  | nil => simp [firstOccs]
  | cons y ys ih =>
    simp only [firstOccs, List.nodup_cons, List.mem_filter, decide_eq_true_eq, ne_eq,
      not_true_eq_false, and_false, not_false_eq_true, true_and]
    exact ih.filter _

theorem registerAll_tys {t : MetaTable} (h : MetaInv t) (regs : List Nat) :
    (t.registerAll regs).tys = t.tys ++ (firstOccs regs).filter (· ∉ t.tys) := by
  induction regs generalizing t with
  | nil => simp [MetaTable.registerAll, firstOccs]
  | cons r rs ih =>
    have := ih (h.register r)
    simp only [MetaTable.registerAll, List.foldl_cons] at this ⊢
    rw [this, register_tys h]
    by_cases hm : r ∈ t.tys
    · rw [if_pos hm]
      simp only [firstOccs, List.filter_cons, hm, not_true_eq_false, decide_false,
        Bool.false_eq_true, if_false, List.filter_filter]
      congr 1
      apply List.filter_congr
      intro x _
      by_cases hx : x = r
      · subst hx; simp [hm]
      · simp [hx]
    · rw [if_neg hm]
      simp only [firstOccs, List.filter_cons, hm, not_false_eq_true, decide_true,
        if_true, List.filter_filter, List.append_assoc, List.cons_append, List.nil_append]
      congr 2
      apply List.filter_congr
      intro x _
      by_cases hx : x = r
      · subst hx; simp
      · simp [hx]

/-! ## `get` -/

theorem getMut_eq_get (cast : CastFn) (t : MetaTable) (r : ResRef) :
    t.getMut cast r = t.get cast r := rfl

theorem get_of_not_mem {t : MetaTable} (h : MetaInv t) (cast : CastFn) {r : ResRef}
    (hm : r.ty ∉ t.tys) : t.get cast r = .none := by
  unfold MetaTable.get
  simp only [(h.not_mem_iff r.ty).mp hm]

theorem get_of_mem {t : MetaTable} (h : MetaInv t) (cast : CastFn) {r : ResRef}
    (hm : r.ty ∈ t.tys) :
    t.get cast r =
      if (cast r.ty r.addr).addr = r.addr then .some (cast r.ty r.addr) else .panic .badCast := by
  obtain ⟨i, hi⟩ := (h.mem_iff r.ty).mp hm
  have hget := (h.idx r.ty i).mp hi
  unfold MetaTable.get
  simp only [hi, h.vt, hget, attachVtable]
  by_cases hc : (cast r.ty r.addr).addr = r.addr
  · simp [hc]
  · simp [hc]

/-! ## the world -/

theorem MWorld.set_cell (w : MWorld) (ty : Nat) (c : Option MCell) (k : Nat) :
    (w.set ty c).cell k = if k = ty then c else w.cell k := rfl

theorem MWorld.set_present (w : MWorld) (ty : Nat) (c : MCell) (k : Nat)
    (hp : w.present ty = true) : (w.set ty (some c)).present k = w.present k := by
  unfold MWorld.present at *
  rw [MWorld.set_cell]
  by_cases hk : k = ty
  · subst hk; simp [hp]
  · simp [hk]

/-! ## `next` -/

/-- cells of absent types are skipped -/
theorem nextFrom_skip (cast : CastFn) (vt : List Nat) (excl : Bool) (pre rest : List Nat)
    (i : Nat) (w : MWorld) (hpre : ∀ ty ∈ pre, w.cell ty = none) :
    nextFrom cast vt excl (pre ++ rest) i w = nextFrom cast vt excl rest (i + pre.length) w := by
  induction pre generalizing i with
  | nil => simp
  | cons p ps ih =>
    have hp : w.cell p = none := hpre p (by simp)
    simp only [List.cons_append, nextFrom, hp]
    rw [ih (i + 1) (fun ty hty => hpre ty (by simp [hty]))]
    simp only [List.length_cons]
    congr 1; omega

/-- the answer of `next` when the first type at or after the index whose resource is present is
`ty` (at position `j`), from a table satisfying the invariant part `vt = tys` -/
theorem nextFrom_hit (cast : CastFn) (tys : List Nat) (excl : Bool) (i : Nat) (w : MWorld)
    (pre : List Nat) (ty : Nat) (rest : List Nat) (c : MCell)
    (hd : tys.drop i = pre ++ ty :: rest)
    (hpre : ∀ x ∈ pre, w.cell x = none) (hc : w.cell ty = some c) :
    nextFrom cast tys excl (tys.drop i) i w =
      match Shred.tryBorrow c.borrow excl with
      | none => ⟨w, i + pre.length + 1, .panic .borrowed⟩
      | some b' =>
        if (cast ty c.addr).addr = c.addr then
          ⟨w.set ty (some { c with borrow := b' }), i + pre.length + 1, .item (cast ty c.addr)⟩
        else ⟨w, i + pre.length + 1, .panic .badCast⟩ := by
  rw [hd, nextFrom_skip cast tys excl pre (ty :: rest) i w hpre]
  have hidx : tys[i + pre.length]? = some ty := by
    have : (tys.drop i)[pre.length]? = some ty := by rw [hd]; simp
    rw [List.getElem?_drop] at this
    exact this
  simp only [nextFrom, hc, hidx, attachVtable]
  cases Shred.tryBorrow c.borrow excl with
  | none => rfl
  | some b' =>
    simp only []
    by_cases hcast : (cast ty c.addr).addr = c.addr
    · simp [hcast]
    · simp [hcast]

theorem nextFrom_miss (cast : CastFn) (vt : List Nat) (excl : Bool) (rest : List Nat) (i : Nat)
    (w : MWorld) (h : ∀ x ∈ rest, w.cell x = none) :
    nextFrom cast vt excl rest i w = ⟨w, i + rest.length, .none⟩ := by
  have := nextFrom_skip cast vt excl rest [] i w h
  simpa [nextFrom] using this

/-- splitting a list at the first element satisfying `p` -/
theorem split_first (p : Nat → Bool) (l : List Nat) :
    (∀ x ∈ l, p x = false) ∨
      ∃ pre x rest, l = pre ++ x :: rest ∧ (∀ y ∈ pre, p y = false) ∧ p x = true := by
  induction l with
  | nil => left; simp
  | cons a as ih =>
    by_cases ha : p a = true
    · right; exact ⟨[], a, as, rfl, by simp, ha⟩
    · rcases ih with h | ⟨pre, x, rest, he, hpre, hx⟩
      · left
        intro y hy
        rcases List.mem_cons.mp hy with rfl | hy
        · simpa using ha
        · exact h y hy
      · right
        refine ⟨a :: pre, x, rest, by simp [he], ?_, hx⟩
        intro y hy
        rcases List.mem_cons.mp hy with rfl | hy
        · simpa using ha
        · exact hpre y hy

/-! ## collecting an iterator -/

/-- a cell after one more successful borrow of the given kind -/
def borrowCell (excl : Bool) (c : MCell) : MCell :=
  { c with borrow := (Shred.tryBorrow c.borrow excl).getD c.borrow }

theorem next_eq (cast : CastFn) (t : MetaTable) (w : MWorld) (i : Nat) (excl : Bool) :
    t.next cast w ⟨i, excl⟩ =
      ((nextFrom cast t.vtableFns excl (t.tys.drop i) i w).world,
       ⟨(nextFrom cast t.vtableFns excl (t.tys.drop i) i w).index, excl⟩,
       (nextFrom cast t.vtableFns excl (t.tys.drop i) i w).out) := rfl

theorem collectN_succ (cast : CastFn) (t : MetaTable) (excl : Bool) (fuel : Nat) (w : MWorld)
    (i : Nat) (acc : List TraitPtr) :
    collectN cast t excl (fuel + 1) w i acc =
      match (nextFrom cast t.vtableFns excl (t.tys.drop i) i w) with
      | ⟨w', i', .none⟩ => ⟨w', i', acc, none⟩
      | ⟨w', i', .panic e⟩ => ⟨w', i', acc, some e⟩
      | ⟨w', i', .item p⟩ => collectN cast t excl fuel w' i' (acc ++ [p]) := by
  rw [collectN, next_eq]
  generalize nextFrom cast t.vtableFns excl (t.tys.drop i) i w = s
  obtain ⟨w', i', o⟩ := s
  cases o <;> rfl

theorem drop_succ_of_drop_cons {l : List Nat} {i x : Nat} {rest : List Nat}
    (h : l.drop i = x :: rest) : l.drop (i + 1) = rest := by
  have : l.drop (i + 1) = (l.drop i).drop 1 := by rw [List.drop_drop]
  rw [this, h]; rfl

theorem getElem?_of_drop_cons {l : List Nat} {i x : Nat} {rest : List Nat}
    (h : l.drop i = x :: rest) : l[i]? = some x := by
  have : (l.drop i)[0]? = some x := by rw [h]; rfl
  rw [List.getElem?_drop] at this
  simpa using this

/-- The whole loop, from any position: if every remaining registered cell that is present can be
borrowed and has an address-preserving cast (whatever vtable it attaches), the loop ends with `None`, having produced one item
per present remaining type, in table order, and having borrowed exactly those cells. -/
theorem collectN_spec (cast : CastFn) (t : MetaTable) (excl : Bool) (hvt : t.vtableFns = t.tys) :
    ∀ (rest : List Nat) (i : Nat) (w : MWorld) (acc : List TraitPtr) (fuel : Nat),
      t.tys.drop i = rest → rest.length < fuel → rest.Nodup →
      (∀ ty ∈ rest, ∀ c, w.cell ty = some c →
        (Shred.tryBorrow c.borrow excl).isSome ∧ (cast ty c.addr).addr = c.addr) →
      (collectN cast t excl fuel w i acc).panic = none ∧
      (collectN cast t excl fuel w i acc).index = i + rest.length ∧
      (collectN cast t excl fuel w i acc).items =
        acc ++ (rest.filter w.present).map (fun ty => cast ty (addrOf w ty)) ∧
      ∀ k, (collectN cast t excl fuel w i acc).world.cell k =
        if k ∈ rest then (w.cell k).map (borrowCell excl) else w.cell k := by
  intro rest
  induction rest with
  | nil =>
    intro i w acc fuel hd hf _ _
    obtain ⟨n, rfl⟩ : ∃ n, fuel = n + 1 := ⟨fuel - 1, by simp at hf; omega⟩
    rw [collectN_succ, hd]
    simp [nextFrom]
  | cons ty rest ih =>
    intro i w acc fuel hd hf hnd hok
    obtain ⟨n, rfl⟩ : ∃ n, fuel = n + 1 := ⟨fuel - 1, by simp at hf; omega⟩
    have hd' := drop_succ_of_drop_cons hd
    have hnd' : rest.Nodup := (List.nodup_cons.mp hnd).2
    have hty : ty ∉ rest := (List.nodup_cons.mp hnd).1
    cases hc : w.cell ty with
    | none =>
      -- absent: this call of `next` is the call at `i + 1`
      have hstep : collectN cast t excl (n + 1) w i acc = collectN cast t excl (n + 1) w (i + 1) acc := by
        rw [collectN_succ, collectN_succ, hd, hd']
        simp only [nextFrom, hc]
      rw [hstep]
      obtain ⟨h1, h2, h3, h4⟩ := ih (i + 1) w acc (n + 1) hd' (by simp at hf ⊢; omega) hnd'
        (fun x hx => hok x (by simp [hx]))
      refine ⟨h1, ?_, ?_, ?_⟩
      · rw [h2]; simp only [List.length_cons]; omega
      · rw [h3]
        have : w.present ty = false := by simp [MWorld.present, hc]
        simp [this]
      · intro k
        rw [h4 k]
        by_cases hk : k = ty
        · subst hk; simp [hty, hc]
        · simp [hk]
    | some c =>
      obtain ⟨hb, hcast⟩ := hok ty (by simp) c hc
      obtain ⟨b', hb'⟩ := Option.isSome_iff_exists.mp hb
      have hidx : t.tys[i]? = some ty := getElem?_of_drop_cons hd
      have hstep : collectN cast t excl (n + 1) w i acc =
          collectN cast t excl n (w.set ty (some { c with borrow := b' })) (i + 1)
            (acc ++ [cast ty c.addr]) := by
        rw [collectN_succ, hd]
        simp only [nextFrom, hc, hvt, hidx, hb', attachVtable, hcast, if_true]
      rw [hstep]
      have hpres : w.present ty = true := by simp [MWorld.present, hc]
      have hcell' : ∀ k, k ≠ ty → (w.set ty (some { c with borrow := b' })).cell k = w.cell k := by
        intro k hk; simp [MWorld.set_cell, hk]
      obtain ⟨h1, h2, h3, h4⟩ := ih (i + 1) (w.set ty (some { c with borrow := b' }))
        (acc ++ [cast ty c.addr]) n hd' (by simp at hf; omega) hnd'
        (fun x hx c' hc' => by
          have hne : x ≠ ty := fun e => hty (e ▸ hx)
          rw [hcell' x hne] at hc'
          exact hok x (by simp [hx]) c' hc')
      refine ⟨h1, ?_, ?_, ?_⟩
      · rw [h2]; simp only [List.length_cons]; omega
      · rw [h3]
        simp only [List.filter_cons, hpres, if_true, List.map_cons, List.append_assoc,
          List.cons_append, List.nil_append]
        congr 2
        · simp [addrOf, hc]
        · have hf' : rest.filter (w.set ty (some { c with borrow := b' })).present
              = rest.filter w.present := by
            apply List.filter_congr
            intro x _
            exact MWorld.set_present w ty _ x hpres
          rw [hf']
          apply List.map_congr_left
          intro x hx
          have hne : x ≠ ty := fun e => hty (e ▸ (List.mem_filter.mp hx).1)
          simp [addrOf, hcell' x hne]
      · intro k
        rw [h4 k]
        by_cases hk : k = ty
        · subst hk
          simp [hty, MWorld.set_cell, hc, borrowCell, hb']
        · simp [hk, hcell' k hk]

/-- a call of `next` that does not return `None` advances the index, and there was a type left -/
theorem nextFrom_progress (cast : CastFn) (vt : List Nat) (excl : Bool) (rest : List Nat) (i : Nat)
    (w : MWorld) (h : (nextFrom cast vt excl rest i w).out ≠ .none) :
    i < (nextFrom cast vt excl rest i w).index ∧
      (nextFrom cast vt excl rest i w).index ≤ i + rest.length := by
  induction rest generalizing i with
  | nil => simp [nextFrom] at h
  | cons ty rest ih =>
    simp only [nextFrom] at h ⊢
    cases hc : w.cell ty with
    | none =>
      simp only [hc] at h ⊢
      have := ih (i + 1) h
      simp only [List.length_cons]; omega
    | some c =>
      simp only [hc] at h ⊢
      cases vt[i]? with
      | none => simp
      | some f =>
        simp only []
        cases Shred.tryBorrow c.borrow excl with
        | none => simp
        | some b' =>
          simp only []
          cases attachVtable cast f c.addr <;> simp

/-- `tys.len() + 1` calls are always enough: more fuel changes nothing -/
theorem collectN_fuel (cast : CastFn) (t : MetaTable) (excl : Bool) :
    ∀ (fuel : Nat) (w : MWorld) (i : Nat) (acc : List TraitPtr), t.tys.length - i < fuel →
      collectN cast t excl (fuel + 1) w i acc = collectN cast t excl fuel w i acc := by
  intro fuel
  induction fuel with
  | zero => intro w i acc h; omega
  | succ n ih =>
    intro w i acc h
    rw [collectN_succ cast t excl (n + 1), collectN_succ cast t excl n]
    have hp := nextFrom_progress cast t.vtableFns excl (t.tys.drop i) i w
    generalize nextFrom cast t.vtableFns excl (t.tys.drop i) i w = s at hp
    obtain ⟨w', i', o⟩ := s
    cases o with
    | none => rfl
    | panic e => rfl
    | item p =>
      simp only []
      have := hp (by simp)
      simp only [List.length_drop] at this
      exact ih w' i' (acc ++ [p]) (by omega)

/-! ## the provided `Iterator` methods: `nth`, the adapters, the consumers

Relative to the world `w0` a call starts in: as long as every registered present cell can be
borrowed in the iterator's way and has an address-preserving cast (`Drivable`), the iterator is a
list iterator over `remaining t w0 i` — the registered types from the cursor on that are present
— and the world differs from `w0` exactly by one more borrow on the cells of the items that are
alive (`DInv`). -/

/-- the registered types from position `i` on whose resource is present -/
def remaining (t : MetaTable) (w : MWorld) (i : Nat) : List Nat := (t.tys.drop i).filter w.present

/-- every registered present cell can be borrowed in the iterator's way, its cast keeps the
address, and its flag is well-formed (`shared 0` is not a state of an `AtomicRefCell`) -/
def Drivable (cast : CastFn) (t : MetaTable) (excl : Bool) (w : MWorld) : Prop :=
  ∀ ty ∈ t.tys, ∀ c, w.cell ty = some c →
    (Shred.tryBorrow c.borrow excl).isSome ∧ (cast ty c.addr).addr = c.addr ∧ c.borrow ≠ .shared 0

/-- the state of a call relative to the world `w0` it started in: exactly the cells of the types in
`kept` (the items alive) carry one more borrow; all of them lie before the cursor -/
structure DInv (t : MetaTable) (excl : Bool) (w0 w : MWorld) (i : Nat) (kept : List Nat) : Prop where
  cells : ∀ k, w.cell k = if k ∈ kept then (w0.cell k).map (borrowCell excl) else w0.cell k
  visited : ∀ ty ∈ kept, ty ∉ t.tys.drop i
  mem : ∀ ty ∈ kept, ty ∈ t.tys

theorem DInv.start (t : MetaTable) (excl : Bool) (w : MWorld) (i : Nat) : DInv t excl w w i [] :=
  ⟨by intro k; simp, by simp, by simp⟩

theorem mem_drop_of_le {l : List Nat} {i j : Nat} (h : i ≤ j) {x : Nat} (hx : x ∈ l.drop j) :
    x ∈ l.drop i := by
  have : l.drop j = (l.drop i).drop (j - i) := by rw [List.drop_drop]; congr 1; omega
  rw [this] at hx
  exact List.mem_of_mem_drop hx

theorem DInv.mono {t : MetaTable} {excl : Bool} {w0 w : MWorld} {i j : Nat} {kept : List Nat}
    (h : DInv t excl w0 w i kept) (hij : i ≤ j) : DInv t excl w0 w j kept :=
  ⟨h.cells, fun ty hty hm => h.visited ty hty (mem_drop_of_le hij hm), h.mem⟩

theorem remaining_past (t : MetaTable) (w : MWorld) (i : Nat) :
    remaining t w (i + (t.tys.drop i).length) = [] := by
  unfold remaining
  have : t.tys.drop (i + (t.tys.drop i).length) = [] := by
    apply List.drop_eq_nil_iff.mpr
    simp only [List.length_drop]; omega
  rw [this]; rfl

theorem releaseBorrow_tryBorrow {b b' : Borrow} {excl : Bool}
    (h : Shred.tryBorrow b excl = some b') (hwf : b ≠ .shared 0) : MWorld.releaseBorrow b' = b := by
  cases b with
  | free => cases excl <;> (cases h; rfl)
  | excl => cases excl <;> cases h
  | shared n =>
    cases excl
    · cases h
      cases n with
      | zero => exact absurd rfl hwf
      | succ m => rfl
    · cases h

/-- `next` when nothing is left: `None`, nothing changes -/
theorem next_drive_nil {cast : CastFn} {t : MetaTable} {excl : Bool} {w0 w : MWorld} {i : Nat}
    {kept : List Nat} (hd : DInv t excl w0 w i kept) (hL : remaining t w0 i = []) :
    t.next cast w ⟨i, excl⟩ = (w, ⟨i + (t.tys.drop i).length, excl⟩, .none) := by
  have hall : ∀ x ∈ t.tys.drop i, w.cell x = none := by
    intro x hx
    have hp : w0.present x = false := by
      have := List.filter_eq_nil_iff.mp hL x hx
      simpa using this
    have h0 : w0.cell x = none := by simpa [MWorld.present] using hp
    rw [hd.cells]
    split <;> simp [h0]
  rw [next_eq, nextFrom_miss cast t.vtableFns excl _ i w hall]

/-- `next` when `ty` is the first type left: its item, kept -/
theorem next_drive_cons {cast : CastFn} {t : MetaTable} {excl : Bool} {w0 w : MWorld} {i : Nat}
    {kept : List Nat} {ty : Nat} {L' : List Nat} (hinv : MetaInv t) (hok : Drivable cast t excl w0)
    (hd : DInv t excl w0 w i kept) (hL : remaining t w0 i = ty :: L') :
    ∃ w' i', t.next cast w ⟨i, excl⟩ = (w', ⟨i', excl⟩, .item (cast ty (addrOf w0 ty))) ∧
      t.slotTy i' = ty ∧ remaining t w0 i' = L' ∧ DInv t excl w0 w' i' (kept ++ [ty]) ∧
      ty ∉ kept ∧ ty ∈ t.tys ∧ w0.present ty = true := by
  obtain ⟨pre, rest, hdrop, hpre, hty, hrest⟩ := List.filter_eq_cons_iff.mp hL
  have hmem_drop : ty ∈ t.tys.drop i := by rw [hdrop]; simp
  have hmem : ty ∈ t.tys := List.mem_of_mem_drop hmem_drop
  have hnk : ty ∉ kept := fun h => hd.visited ty h hmem_drop
  obtain ⟨c, hc0⟩ : ∃ c, w0.cell ty = some c :=
    Option.isSome_iff_exists.mp (by simpa [MWorld.present] using hty)
  have hc : w.cell ty = some c := by rw [hd.cells, if_neg hnk, hc0]
  have hpre' : ∀ x ∈ pre, w.cell x = none := by
    intro x hx
    have h0 : w0.cell x = none := by
      have := hpre x hx
      simpa [MWorld.present] using this
    rw [hd.cells]
    split <;> simp [h0]
  obtain ⟨hb, hcast, _⟩ := hok ty hmem c hc0
  obtain ⟨b', hb'⟩ := Option.isSome_iff_exists.mp hb
  have hrestdrop : t.tys.drop (i + pre.length + 1) = rest := by
    have h2 : t.tys.drop (i + pre.length + 1) = (t.tys.drop i).drop (pre.length + 1) := by
      rw [List.drop_drop]; congr 1
    rw [h2, hdrop]
    simp
  have hnd : (pre ++ ty :: rest).Nodup := by
    rw [← hdrop]
    exact List.Nodup.sublist (List.drop_sublist i t.tys) hinv.nodup
  have hnotrest : ty ∉ rest := by
    have := (List.nodup_append.mp hnd).2.1
    exact (List.nodup_cons.mp this).1
  refine ⟨w.set ty (some { c with borrow := b' }), i + pre.length + 1, ?_, ?_, ?_, ?_, hnk, hmem, hty⟩
  · rw [next_eq, hinv.vt, nextFrom_hit cast t.tys excl i w pre ty rest c hdrop hpre' hc]
    simp [hb', hcast, addrOf, hc0]
  · unfold MetaTable.slotTy
    have : (t.tys.drop i)[pre.length]? = some ty := by rw [hdrop]; simp
    rw [List.getElem?_drop] at this
    simp [this]
  · unfold remaining
    rw [hrestdrop]; exact hrest
  · refine ⟨?_, ?_, ?_⟩
    · intro k
      rw [MWorld.set_cell]
      by_cases hk : k = ty
      · subst hk
        simp [hc0, borrowCell, hb']
      · rw [if_neg hk, hd.cells]
        simp [hk]
    · intro x hx
      rw [hrestdrop]
      rcases List.mem_append.mp hx with hx | hx
      · intro hr
        apply hd.visited x hx
        rw [hdrop]; simp [hr]
      · have : x = ty := by simpa using hx
        subst this; exact hnotrest
    · intro x hx
      rcases List.mem_append.mp hx with hx | hx
      · exact hd.mem x hx
      · have : x = ty := by simpa using hx
        subst this; exact hmem

/-- dropping an item that is alive -/
theorem release_drive {cast : CastFn} {t : MetaTable} {excl : Bool} {w0 w : MWorld} {i : Nat}
    {kept : List Nat} {ty : Nat} (hok : Drivable cast t excl w0) (hd : DInv t excl w0 w i kept)
    (hty : ty ∈ kept) : DInv t excl w0 (w.release ty) i (kept.filter (· ≠ ty)) := by
  refine ⟨?_, ?_, ?_⟩
  · intro k
    have hwty : w.cell ty = (w0.cell ty).map (borrowCell excl) := by rw [hd.cells, if_pos hty]
    have hkmem : k ≠ ty → (k ∈ kept.filter (· ≠ ty) ↔ k ∈ kept) := by
      intro hk; simp [List.mem_filter, hk]
    cases h0 : w0.cell ty with
    | none =>
      have : w.release ty = w := by
        unfold MWorld.release
        rw [hwty, h0]; rfl
      rw [this]
      by_cases hk : k = ty
      · subst hk
        rw [hwty, h0]
        simp
      · rw [hd.cells]
        by_cases hkk : k ∈ kept
        · rw [if_pos hkk, if_pos ((hkmem hk).mpr hkk)]
        · rw [if_neg hkk, if_neg (fun h => hkk ((hkmem hk).mp h))]
    | some c =>
      obtain ⟨hb, _, hwf⟩ := hok ty (hd.mem ty hty) c h0
      obtain ⟨b', hb'⟩ := Option.isSome_iff_exists.mp hb
      have hwc : w.cell ty = some { c with borrow := b' } := by
        rw [hwty, h0]; simp [borrowCell, hb']
      unfold MWorld.release
      rw [hwc]
      simp only [MWorld.set_cell]
      by_cases hk : k = ty
      · subst hk
        simp [releaseBorrow_tryBorrow hb' hwf, h0]
      · rw [if_neg hk, hd.cells]
        by_cases hkk : k ∈ kept
        · rw [if_pos hkk, if_pos ((hkmem hk).mpr hkk)]
        · rw [if_neg hkk, if_neg (fun h => hkk ((hkmem hk).mp h))]
  · intro x hx
    exact hd.visited x (List.mem_filter.mp hx).1
  · intro x hx
    exact hd.mem x (List.mem_filter.mp hx).1

theorem filter_ne_append_self {kept : List Nat} {ty : Nat} (h : ty ∉ kept) :
    (kept ++ [ty]).filter (· ≠ ty) = kept := by
  rw [List.filter_append]
  have h1 : kept.filter (· ≠ ty) = kept := by
    apply List.filter_eq_self.mpr
    intro a ha
    have : a ≠ ty := fun e => h (e ▸ ha)
    simpa using this
  rw [h1]
  simp

/-- `advance_by(n)`: the first `n` types left are borrowed and released in turn; the world is,
cell by cell, the one before -/
theorem advanceBy_drive {cast : CastFn} {t : MetaTable} {excl : Bool} {w0 : MWorld}
    (hinv : MetaInv t) (hok : Drivable cast t excl w0) :
    ∀ (n : Nat) (w : MWorld) (i : Nat) (kept : List Nat), DInv t excl w0 w i kept →
      ∃ w' i', DInv t excl w0 w' i' kept ∧
        ((n ≤ (remaining t w0 i).length ∧ advanceBy cast t excl n w i = (w', i', .ok) ∧
            remaining t w0 i' = (remaining t w0 i).drop n) ∨
         ((remaining t w0 i).length < n ∧ advanceBy cast t excl n w i = (w', i', .short) ∧
            remaining t w0 i' = [])) := by
  intro n
  induction n with
  | zero =>
    intro w i kept hd
    exact ⟨w, i, hd, Or.inl ⟨Nat.zero_le _, rfl, by simp⟩⟩
  | succ n ih =>
    intro w i kept hd
    cases hL : remaining t w0 i with
    | nil =>
      refine ⟨w, i + (t.tys.drop i).length, hd.mono (by omega), Or.inr ⟨by simp, ?_, remaining_past t w0 i⟩⟩
      simp only [advanceBy, next_drive_nil hd hL]
    | cons ty L' =>
      obtain ⟨w', i', hnext, hslot, hrem, hd', hnk, _, _⟩ := next_drive_cons hinv hok hd hL
      have hrel := release_drive (ty := ty) hok hd' (by simp)
      rw [filter_ne_append_self hnk] at hrel
      obtain ⟨w'', i'', hd'', hres⟩ := ih (w'.release ty) i' kept hrel
      have hstep : advanceBy cast t excl (n + 1) w i = advanceBy cast t excl n (w'.release ty) i' := by
        simp only [advanceBy, hnext, hslot]
      refine ⟨w'', i'', hd'', ?_⟩
      rw [hstep]
      rw [hrem] at hres
      rcases hres with ⟨h1, h2, h3⟩ | ⟨h1, h2, h3⟩
      · exact Or.inl ⟨by simp; omega, h2, by simpa using h3⟩
      · exact Or.inr ⟨by simp; omega, h2, h3⟩

/-- what a call that hands out at most one item did: `d` of the types `L` that were to come are
dropped on the way, the next one is handed out and kept -/
def Pulled (cast : CastFn) (t : MetaTable) (excl : Bool) (w0 : MWorld) (kept : List Nat)
    (L : List Nat) (d : Nat) (r : MWorld × MIter × NextOut) : Prop :=
  match L.drop d with
  | ty :: L' => ∃ w' i', r = (w', ⟨i', excl⟩, .item (cast ty (addrOf w0 ty))) ∧ t.slotTy i' = ty ∧
      remaining t w0 i' = L' ∧ DInv t excl w0 w' i' (kept ++ [ty]) ∧ ty ∉ kept ∧ ty ∈ t.tys
  | [] => ∃ w' i', r = (w', ⟨i', excl⟩, .none) ∧ remaining t w0 i' = [] ∧ DInv t excl w0 w' i' kept

theorem next_pulled {cast : CastFn} {t : MetaTable} {excl : Bool} {w0 w : MWorld} {i : Nat}
    {kept : List Nat} (hinv : MetaInv t) (hok : Drivable cast t excl w0)
    (hd : DInv t excl w0 w i kept) :
    Pulled cast t excl w0 kept (remaining t w0 i) 0 (t.next cast w ⟨i, excl⟩) := by
  unfold Pulled
  rw [List.drop_zero]
  cases hL : remaining t w0 i with
  | nil =>
    exact ⟨w, _, next_drive_nil hd hL, remaining_past t w0 i, hd.mono (by omega)⟩
  | cons ty L' =>
    obtain ⟨w', i', h1, h2, h3, h4, h5, h6, _⟩ := next_drive_cons hinv hok hd hL
    exact ⟨w', i', h1, h2, h3, h4, h5, h6⟩

/-- **`nth(n)` is the `n`-th type left** (counting from 0), or `None` -/
theorem nth_pulled {cast : CastFn} {t : MetaTable} {excl : Bool} {w0 w : MWorld} {i : Nat}
    {kept : List Nat} (hinv : MetaInv t) (hok : Drivable cast t excl w0)
    (hd : DInv t excl w0 w i kept) (n : Nat) :
    Pulled cast t excl w0 kept (remaining t w0 i) n (t.nth cast w ⟨i, excl⟩ n) := by
  obtain ⟨w', i', hd', hres⟩ := advanceBy_drive hinv hok n w i kept hd
  rcases hres with ⟨_, hadv, hrem⟩ | ⟨hlt, hadv, hrem⟩
  · have hp := next_pulled (cast := cast) hinv hok hd'
    have hn : t.nth cast w ⟨i, excl⟩ n = t.next cast w' ⟨i', excl⟩ := by
      simp only [MetaTable.nth, hadv]
    rw [hn]
    unfold Pulled at hp ⊢
    rw [hrem, List.drop_zero] at hp
    exact hp
  · have hn : t.nth cast w ⟨i, excl⟩ n = (w', ⟨i', excl⟩, .none) := by
      simp only [MetaTable.nth, hadv]
    unfold Pulled
    have : (remaining t w0 i).drop n = [] := List.drop_eq_nil_iff.mpr (by omega)
    rw [this]
    exact ⟨w', i', hn, hrem, hd'⟩

/-! ### the adapters, on the list of types left -/

/-- `step_by(s + 1)` on a list, `c` elements still to be dropped before the next one is taken -/
def stepSel (s : Nat) : Nat → List Nat → List Nat
  | _, [] => []
  | 0, x :: xs => x :: stepSel s s xs
  | c + 1, _ :: xs => stepSel s c xs

/-- which of the types left an adapter hands on: all, all but the first `n`, the first and then
every `step`-th, the first `n` -/
def sel : Adapter → List Nat → List Nat
  | .plain, L => L
  | .skip n, L => L.drop n
  | .stepBy s first, L => stepSel s (if first then 0 else s) L
  | .take n, L => L.take n

/-- one `next` of the adapter on the list of types left: the type handed on, the adapter and the
list afterwards -/
def adStep : Adapter → List Nat → Option (Nat × Adapter × List Nat)
  | .plain, L =>
    match L with
    | ty :: L' => some (ty, .plain, L')
    | [] => none
  | .skip n, L =>
    match L.drop n with
    | ty :: L' => some (ty, .skip 0, L')
    | [] => none
  | .stepBy s first, L =>
    match L.drop (if first then 0 else s) with
    | ty :: L' => some (ty, .stepBy s false, L')
    | [] => none
  | .take 0, _ => none
  | .take (n + 1), L =>
    match L with
    | ty :: L' => some (ty, .take n, L')
    | [] => none

/-- the types left when the adapter has answered `None`: `take(n)` stops after `n` items without
asking the iterator again, the others run it to the end -/
def adRest : Adapter → List Nat → List Nat
  | .take n, L => L.drop n
  | _, _ => []

theorem adRest_step {ad ad' : Adapter} {L L' : List Nat} {ty : Nat}
    (h : adStep ad L = some (ty, ad', L')) : adRest ad' L' = adRest ad L := by
  cases ad with
  | plain =>
    cases L with
    | nil => simp [adStep] at h
    | cons x xs => simp only [adStep, Option.some.injEq, Prod.mk.injEq] at h; obtain ⟨_, rfl, _⟩ := h; rfl
  | skip n =>
    simp only [adStep] at h
    cases hd : L.drop n with
    | nil => rw [hd] at h; simp at h
    | cons x xs =>
      rw [hd] at h
      simp only [Option.some.injEq, Prod.mk.injEq] at h
      obtain ⟨_, rfl, _⟩ := h; rfl
  | stepBy s first =>
    simp only [adStep] at h
    cases hd : L.drop (if first then 0 else s) with
    | nil => rw [hd] at h; simp at h
    | cons x xs =>
      rw [hd] at h
      simp only [Option.some.injEq, Prod.mk.injEq] at h
      obtain ⟨_, rfl, _⟩ := h; rfl
  | take n =>
    cases n with
    | zero => simp [adStep] at h
    | succ n =>
      cases L with
      | nil => simp [adStep] at h
      | cons x xs =>
        simp only [adStep, Option.some.injEq, Prod.mk.injEq] at h
        obtain ⟨_, rfl, rfl⟩ := h
        simp [adRest]

theorem stepSel_drop (s : Nat) : ∀ (c : Nat) (L : List Nat), stepSel s c L = stepSel s 0 (L.drop c) := by
  intro c
  induction c with
  | zero => intro L; simp
  | succ c ih =>
    intro L
    cases L with
    | nil => simp [stepSel]
    | cons x xs => simp only [stepSel, List.drop_succ_cons]; exact ih xs

/-- `sel` is what iterating `adStep` gives -/
theorem sel_unfold (ad : Adapter) (L : List Nat) :
    sel ad L = match adStep ad L with
      | some (ty, ad', L') => ty :: sel ad' L'
      | none => [] := by
  cases ad with
  | plain => cases L <;> simp [sel, adStep]
  | skip n =>
    simp only [sel, adStep]
    cases h : L.drop n <;> simp
  | stepBy s first =>
    simp only [sel, adStep]
    rw [stepSel_drop]
    cases h : L.drop (if first then 0 else s) with
    | nil => simp [stepSel]
    | cons x xs => simp [stepSel]
  | take n =>
    cases n with
    | zero => simp [sel, adStep]
    | succ n => cases L <;> simp [sel, adStep]

theorem adStep_length {ad ad' : Adapter} {L L' : List Nat} {ty : Nat}
    (h : adStep ad L = some (ty, ad', L')) : L'.length < L.length := by
  have key : ∀ d, L.drop d = ty :: L' → L'.length < L.length := by
    intro d hd
    have := congrArg List.length hd
    simp only [List.length_drop, List.length_cons] at this
    omega
  cases ad with
  | plain =>
    cases L with
    | nil => simp [adStep] at h
    | cons x xs => simp only [adStep, Option.some.injEq, Prod.mk.injEq] at h; obtain ⟨_, _, rfl⟩ := h; simp
  | skip n =>
    simp only [adStep] at h
    cases hd : L.drop n with
    | nil => rw [hd] at h; simp at h
    | cons x xs =>
      rw [hd] at h
      simp only [Option.some.injEq, Prod.mk.injEq] at h
      obtain ⟨rfl, _, rfl⟩ := h
      exact key n hd
  | stepBy s first =>
    simp only [adStep] at h
    cases hd : L.drop (if first then 0 else s) with
    | nil => rw [hd] at h; simp at h
    | cons x xs =>
      rw [hd] at h
      simp only [Option.some.injEq, Prod.mk.injEq] at h
      obtain ⟨rfl, _, rfl⟩ := h
      exact key _ hd
  | take n =>
    cases n with
    | zero => simp [adStep] at h
    | succ n =>
      cases L with
      | nil => simp [adStep] at h
      | cons x xs => simp only [adStep, Option.some.injEq, Prod.mk.injEq] at h; obtain ⟨_, _, rfl⟩ := h; simp

/-- one `next` of an adapter, relative to the starting world -/
theorem adNext_drive {cast : CastFn} {t : MetaTable} {excl : Bool} {w0 w : MWorld} {i : Nat}
    {kept : List Nat} (hinv : MetaInv t) (hok : Drivable cast t excl w0)
    (hd : DInv t excl w0 w i kept) (ad : Adapter) :
    match adStep ad (remaining t w0 i) with
    | some (ty, ad', L') =>
      ∃ w' i', adNext cast t excl ad w i = (ad', w', i', .item (cast ty (addrOf w0 ty))) ∧
        t.slotTy i' = ty ∧ remaining t w0 i' = L' ∧ DInv t excl w0 w' i' (kept ++ [ty]) ∧
        ty ∉ kept ∧ ty ∈ t.tys
    | none => ∃ ad' w' i', adNext cast t excl ad w i = (ad', w', i', .none) ∧ DInv t excl w0 w' i' kept ∧
        remaining t w0 i' = adRest ad (remaining t w0 i) := by
  have pulled : ∀ (d : Nat) (r : MWorld × MIter × NextOut) (ad' : Adapter),
      Pulled cast t excl w0 kept (remaining t w0 i) d r →
      match (match (remaining t w0 i).drop d with
             | ty :: L' => some (ty, ad', L')
             | [] => (none : Option (Nat × Adapter × List Nat))) with
      | some (ty, ad'', L') =>
        ∃ w' i', (ad', r.1, r.2.1.index, r.2.2) = (ad'', w', i', NextOut.item (cast ty (addrOf w0 ty))) ∧
          t.slotTy i' = ty ∧ remaining t w0 i' = L' ∧ DInv t excl w0 w' i' (kept ++ [ty]) ∧
          ty ∉ kept ∧ ty ∈ t.tys
      | none => ∃ ad'' w' i', (ad', r.1, r.2.1.index, r.2.2) = (ad'', w', i', NextOut.none) ∧
          DInv t excl w0 w' i' kept ∧ remaining t w0 i' = [] := by
    intro d r ad' hp
    unfold Pulled at hp
    cases hL : (remaining t w0 i).drop d with
    | nil =>
      rw [hL] at hp
      obtain ⟨w', i', rfl, hr, hd'⟩ := hp
      exact ⟨ad', w', i', rfl, hd', hr⟩
    | cons ty L' =>
      rw [hL] at hp
      obtain ⟨w', i', rfl, h2, h3, h4, h5, h6⟩ := hp
      exact ⟨w', i', rfl, h2, h3, h4, h5, h6⟩
  cases ad with
  | plain =>
    have := pulled 0 _ .plain (next_pulled (cast := cast) hinv hok hd)
    simpa only [adStep, adNext, adRest, List.drop_zero] using this
  | skip n =>
    have := pulled n _ (.skip 0) (nth_pulled (cast := cast) hinv hok hd n)
    simpa only [adStep, adNext, adRest] using this
  | stepBy s first =>
    have := pulled (if first then 0 else s) _ (.stepBy s false)
      (nth_pulled (cast := cast) hinv hok hd (if first then 0 else s))
    simpa only [adStep, adNext, adRest] using this
  | take n =>
    cases n with
    | zero => exact ⟨.take 0, w, i, rfl, hd, by simp [adRest]⟩
    | succ n =>
      have := pulled 0 _ (.take n) (next_pulled (cast := cast) hinv hok hd)
      rw [List.drop_zero] at this
      simp only [adStep, adNext]
      cases hL : remaining t w0 i with
      | nil =>
        rw [hL] at this
        obtain ⟨ad'', w', i', h1, h2, h3⟩ := this
        exact ⟨ad'', w', i', h1, h2, by simp [adRest, h3]⟩
      | cons x xs =>
        rw [hL] at this
        exact this

/-! ### the consumers -/

/-- the item of type `ty` in the starting world `w0`, as the `kept` lists record it -/
def itemOf (cast : CastFn) (w0 : MWorld) (ty : Nat) : Nat × TraitPtr := (ty, cast ty (addrOf w0 ty))

/-- `collect` / `for_each` / `fold`: no panic, the items of `sel ad L` in order, exactly their
cells borrowed once more -/
theorem collectVia_drive {cast : CastFn} {t : MetaTable} {excl : Bool} {w0 : MWorld}
    (hinv : MetaInv t) (hok : Drivable cast t excl w0) :
    ∀ (fuel : Nat) (ad : Adapter) (w : MWorld) (i : Nat) (kept : List (Nat × TraitPtr)),
      DInv t excl w0 w i (kept.map (·.1)) → (remaining t w0 i).length < fuel →
      (collectVia cast t excl fuel ad w i kept).panic = none ∧
      (collectVia cast t excl fuel ad w i kept).kept =
        kept ++ (sel ad (remaining t w0 i)).map (itemOf cast w0) ∧
      (collectVia cast t excl fuel ad w i kept).seen = (collectVia cast t excl fuel ad w i kept).kept.length ∧
      DInv t excl w0 (collectVia cast t excl fuel ad w i kept).world
        (collectVia cast t excl fuel ad w i kept).index
        ((collectVia cast t excl fuel ad w i kept).kept.map (·.1)) ∧
      remaining t w0 (collectVia cast t excl fuel ad w i kept).index = adRest ad (remaining t w0 i) := by
  intro fuel
  induction fuel with
  | zero => intro ad w i kept _ hf; omega
  | succ fuel ih =>
    intro ad w i kept hd hf
    have hstep := adNext_drive (cast := cast) hinv hok hd ad
    rw [sel_unfold]
    cases hs : adStep ad (remaining t w0 i) with
    | none =>
      rw [hs] at hstep
      obtain ⟨ad', w', i', hn, hd'⟩ := hstep
      have hcv : collectVia cast t excl (fuel + 1) ad w i kept = ⟨w', i', kept, kept.length, none⟩ := by
        simp only [collectVia, hn]
      rw [hcv]
      exact ⟨rfl, by simp, rfl, hd'.1, hd'.2⟩
    | some v =>
      obtain ⟨ty, ad', L'⟩ := v
      rw [hs] at hstep
      obtain ⟨w', i', hn, hslot, hrem, hd', _, _⟩ := hstep
      have hlen := adStep_length hs
      have hd'' : DInv t excl w0 w' i' ((kept ++ [(t.slotTy i', cast ty (addrOf w0 ty))]).map (·.1)) := by
        simpa [hslot] using hd'
      have := ih ad' w' i' (kept ++ [(t.slotTy i', cast ty (addrOf w0 ty))]) hd'' (by rw [hrem]; omega)
      simp only [collectVia, hn]
      rw [hrem] at this
      obtain ⟨h1, h2, h3, h4, h5⟩ := this
      refine ⟨h1, ?_, h3, h4, by rw [h5, adRest_step hs]⟩
      rw [h2, hslot]
      simp [itemOf]

/-- `last()`: no panic, the item of the last type of `sel ad L` (else what was there before)
alive, no other -/
theorem lastVia_drive {cast : CastFn} {t : MetaTable} {excl : Bool} {w0 : MWorld}
    (hinv : MetaInv t) (hok : Drivable cast t excl w0) :
    ∀ (fuel : Nat) (ad : Adapter) (w : MWorld) (i : Nat) (prev : Option (Nat × TraitPtr)) (seen : Nat),
      DInv t excl w0 w i (prev.toList.map (·.1)) → (remaining t w0 i).length < fuel →
      (lastVia cast t excl fuel ad w i prev seen).panic = none ∧
      (lastVia cast t excl fuel ad w i prev seen).kept =
        (match (sel ad (remaining t w0 i)).getLast? with
         | some ty => [itemOf cast w0 ty]
         | none => prev.toList) ∧
      (lastVia cast t excl fuel ad w i prev seen).seen = seen + (sel ad (remaining t w0 i)).length ∧
      DInv t excl w0 (lastVia cast t excl fuel ad w i prev seen).world
        (lastVia cast t excl fuel ad w i prev seen).index
        ((lastVia cast t excl fuel ad w i prev seen).kept.map (·.1)) ∧
      remaining t w0 (lastVia cast t excl fuel ad w i prev seen).index = adRest ad (remaining t w0 i) := by
  intro fuel
  induction fuel with
  | zero => intro ad w i prev seen _ hf; omega
  | succ fuel ih =>
    intro ad w i prev seen hd hf
    have hstep := adNext_drive (cast := cast) hinv hok hd ad
    rw [sel_unfold]
    cases hs : adStep ad (remaining t w0 i) with
    | none =>
      rw [hs] at hstep
      obtain ⟨ad', w', i', hn, hd'⟩ := hstep
      have hcv : lastVia cast t excl (fuel + 1) ad w i prev seen = ⟨w', i', prev.toList, seen, none⟩ := by
        simp only [lastVia, hn]
      rw [hcv]
      exact ⟨rfl, by simp, by simp, hd'.1, hd'.2⟩
    | some v =>
      obtain ⟨ty, ad', L'⟩ := v
      rw [hs] at hstep
      obtain ⟨w', i', hn, hslot, hrem, hd', hnk, _⟩ := hstep
      have hlen := adStep_length hs
      -- the previous item is dropped
      have hd'' : DInv t excl w0 (dropPrev w' prev) i' [ty] := by
        cases prev with
        | none => simpa [dropPrev] using hd'
        | some pv =>
          obtain ⟨pty, pp⟩ := pv
          have hne : ty ≠ pty := by
            intro e; apply hnk; simp [e]
          have := release_drive (ty := pty) hok hd' (by simp)
          simpa [dropPrev, List.filter_cons, hne] using this
      have := ih ad' _ i' (some (t.slotTy i', cast ty (addrOf w0 ty))) (seen + 1)
        (by simpa [hslot] using hd'') (by rw [hrem]; omega)
      simp only [lastVia, hn]
      rw [hrem] at this
      obtain ⟨h1, h2, h3, h4, h5⟩ := this
      refine ⟨h1, ?_, ?_, h4, by rw [h5, adRest_step hs]⟩
      · rw [h2, hslot, List.getLast?_cons]
        cases (sel ad' L').getLast? <;> simp [itemOf]
      · rw [h3]; simp; omega

/-- `count()`: no panic, the number of types in `sel ad L`, no item alive -/
theorem countVia_drive {cast : CastFn} {t : MetaTable} {excl : Bool} {w0 : MWorld}
    (hinv : MetaInv t) (hok : Drivable cast t excl w0) :
    ∀ (fuel : Nat) (ad : Adapter) (w : MWorld) (i : Nat) (seen : Nat),
      DInv t excl w0 w i [] → (remaining t w0 i).length < fuel →
      (countVia cast t excl fuel ad w i seen).panic = none ∧
      (countVia cast t excl fuel ad w i seen).kept = [] ∧
      (countVia cast t excl fuel ad w i seen).seen = seen + (sel ad (remaining t w0 i)).length ∧
      DInv t excl w0 (countVia cast t excl fuel ad w i seen).world
        (countVia cast t excl fuel ad w i seen).index [] ∧
      remaining t w0 (countVia cast t excl fuel ad w i seen).index = adRest ad (remaining t w0 i) := by
  intro fuel
  induction fuel with
  | zero => intro ad w i seen _ hf; omega
  | succ fuel ih =>
    intro ad w i seen hd hf
    have hstep := adNext_drive (cast := cast) hinv hok hd ad
    rw [sel_unfold]
    cases hs : adStep ad (remaining t w0 i) with
    | none =>
      rw [hs] at hstep
      obtain ⟨ad', w', i', hn, hd'⟩ := hstep
      have hcv : countVia cast t excl (fuel + 1) ad w i seen = ⟨w', i', [], seen, none⟩ := by
        simp only [countVia, hn]
      rw [hcv]
      exact ⟨rfl, rfl, by simp, hd'.1, hd'.2⟩
    | some v =>
      obtain ⟨ty, ad', L'⟩ := v
      rw [hs] at hstep
      obtain ⟨w', i', hn, hslot, hrem, hd', _, _⟩ := hstep
      have hlen := adStep_length hs
      have hrel := release_drive (ty := ty) hok hd' (by simp)
      have hrel' : DInv t excl w0 (w'.release ty) i' [] := by simpa using hrel
      have := ih ad' (w'.release ty) i' (seen + 1) hrel' (by rw [hrem]; omega)
      simp only [countVia, hn, hslot]
      rw [hrem] at this
      obtain ⟨h1, h2, h3, h4, h5⟩ := this
      refine ⟨h1, h2, ?_, h4, by rw [h5, adRest_step hs]⟩
      rw [h3]; simp; omega

end Meta
end Shred
