import ShredModel.Model.Meta
/-!
# Lemmas about the `MetaTable` model (C17)
-/
namespace Shred
namespace Meta
open MetaTable

/-! ## the index map -/

theorem lookup_append (m : List (Nat × Nat)) (k v x : Nat) :
    lookup (m ++ [(k, v)]) x =
      match lookup m x with
      | some i => some i
      | none => if k = x then some v else none := by
  induction m with
  | nil => simp [lookup]
  | cons p m ih =>
    obtain ⟨a, b⟩ := p
    simp only [List.cons_append, lookup]
    split
    · rfl
    · exact ih

/-- The representation invariant of the three parallel containers. -/
structure MetaInv (t : MetaTable) : Prop where
  /-- no type is stored twice -/
  nodup : t.tys.Nodup
  /-- position `i` of `vtable_fns` holds the attach function instantiated with `tys[i]`
  (a function is named by the type it was instantiated with); in particular equal lengths -/
  vt : t.vtableFns = t.tys
  /-- `indices.len() = tys.len()` -/
  len : t.indices.length = t.tys.length
  /-- `indices` maps exactly the stored types, each to its position -/
  idx : ∀ ty i, lookup t.indices ty = some i ↔ t.tys[i]? = some ty

theorem MetaInv.empty : MetaInv {} :=
  ⟨List.nodup_nil, rfl, rfl, by intro ty i; simp [lookup]⟩

theorem MetaInv.mem_iff {t : MetaTable} (h : MetaInv t) (ty : Nat) :
    ty ∈ t.tys ↔ ∃ i, lookup t.indices ty = some i := by
  constructor
  · intro hm
    obtain ⟨i, hi, he⟩ := List.getElem_of_mem hm
    exact ⟨i, (h.idx ty i).mpr (by simp [List.getElem?_eq_getElem hi, he])⟩
  · rintro ⟨i, hi⟩
    exact List.mem_of_getElem? ((h.idx ty i).mp hi)

theorem MetaInv.not_mem_iff {t : MetaTable} (h : MetaInv t) (ty : Nat) :
    ty ∉ t.tys ↔ lookup t.indices ty = none := by
  rw [h.mem_iff]
  cases lookup t.indices ty <;> simp

/-- `self.vtable_fns[ind] = vtable_fn` in `register` is in bounds -/
theorem register_index_in_bounds {t : MetaTable} (h : MetaInv t) {ty ind : Nat}
    (hl : lookup t.indices ty = some ind) : ind < t.vtableFns.length := by
  have := (h.idx ty ind).mp hl
  rw [h.vt]
  exact (List.getElem?_eq_some_iff.mp this).1

/-- on a repeated registration nothing changes (the function stored again is the one that was
there: it is determined by the type) -/
theorem register_of_mem {t : MetaTable} (h : MetaInv t) {ty : Nat} (hm : ty ∈ t.tys) :
    t.register ty = t := by
  obtain ⟨i, hi⟩ := (h.mem_iff ty).mp hm
  have hget := (h.idx ty i).mp hi
  obtain ⟨hlt, he⟩ := List.getElem?_eq_some_iff.mp hget
  unfold register
  simp only [hi]
  have : t.vtableFns.set i ty = t.vtableFns := by
    rw [h.vt]
    conv => lhs; rw [← he]
    exact List.set_getElem_self hlt
  rw [this]

theorem register_of_not_mem {t : MetaTable} (h : MetaInv t) {ty : Nat} (hm : ty ∉ t.tys) :
    t.register ty =
      { vtableFns := t.vtableFns ++ [ty], indices := t.indices ++ [(ty, t.indices.length)],
        tys := t.tys ++ [ty] } := by
  have := (h.not_mem_iff ty).mp hm
  unfold register
  simp only [this]

theorem register_tys {t : MetaTable} (h : MetaInv t) (ty : Nat) :
    (t.register ty).tys = if ty ∈ t.tys then t.tys else t.tys ++ [ty] := by
  by_cases hm : ty ∈ t.tys
  · rw [register_of_mem h hm, if_pos hm]
  · rw [register_of_not_mem h hm, if_neg hm]

/-- `register` keeps the invariant, whether the type is new or not -/
theorem MetaInv.register {t : MetaTable} (h : MetaInv t) (ty : Nat) : MetaInv (t.register ty) := by
  by_cases hm : ty ∈ t.tys
  · rw [register_of_mem h hm]; exact h
  · rw [register_of_not_mem h hm]
    have hnone := (h.not_mem_iff ty).mp hm
    refine ⟨?_, ?_, ?_, ?_⟩
    · simp only [List.nodup_append, List.nodup_cons, List.not_mem_nil, not_false_eq_true,
        List.nodup_nil, and_self, List.mem_cons, or_false, true_and]
      refine ⟨h.nodup, ?_⟩
      intro a ha b hb
      subst hb
      intro hab; subst hab; exact hm ha
    · simp only [h.vt]
    · simp [h.len]
    · intro x i
      simp only [lookup_append]
      cases hx : lookup t.indices x with
      | some j =>
        simp only []
        have hj := (h.idx x j).mp hx
        have hjlt := (List.getElem?_eq_some_iff.mp hj).1
        constructor
        · intro e; cases e
          rw [List.getElem?_append_left hjlt]; exact hj
        · intro e
          by_cases hi : i < t.tys.length
          · rw [List.getElem?_append_left hi] at e
            have := (h.idx x i).mpr e
            rw [hx] at this; exact this
          · rw [List.getElem?_append_right (by omega)] at e
            have hxe : ty = x := by
              cases hk : i - t.tys.length with
              | zero => rw [hk] at e; simpa using e
              | succ n => rw [hk] at e; simp at e
            subst hxe
            rw [hnone] at hx; cases hx
      | none =>
        simp only []
        constructor
        · intro e
          split at e
          · rename_i hxe
            cases e
            subst hxe
            rw [h.len, List.getElem?_append_right (by omega)]
            simp
          · cases e
        · intro e
          by_cases hi : i < t.tys.length
          · rw [List.getElem?_append_left hi] at e
            have := (h.idx x i).mpr e
            rw [hx] at this; cases this
          · rw [List.getElem?_append_right (by omega)] at e
            cases hk : i - t.tys.length with
            | zero =>
              rw [hk] at e
              have hxe : ty = x := by simpa using e
              rw [if_pos hxe, h.len]
              congr 1; omega
            | succ n => rw [hk] at e; simp at e

/-- **Invariance.** Every table reachable from an invariant one by any sequence of `register`
calls (repeats included) satisfies the invariant. -/
theorem MetaInv.registerAll {t : MetaTable} (h : MetaInv t) (regs : List Nat) :
    MetaInv (t.registerAll regs) := by
  induction regs generalizing t with
  | nil => exact h
  | cons r rs ih => exact ih (h.register r)

/-! ## first-registration order -/

/-- the specification of "first-registration order, once each": keep the first occurrence of
every element -/
def firstOccs : List Nat → List Nat
  | [] => []
  | x :: xs => x :: (firstOccs xs).filter (· ≠ x)

theorem mem_firstOccs (l : List Nat) (x : Nat) : x ∈ firstOccs l ↔ x ∈ l := by
  induction l with
  | nil => simp [firstOccs]
  | cons y ys ih =>
    simp only [firstOccs, List.mem_cons, List.mem_filter, ih, decide_eq_true_eq]
    by_cases h : x = y <;> simp [h]

theorem nodup_firstOccs (l : List Nat) : (firstOccs l).Nodup := by
  induction l with
  | nil => simp [firstOccs]
  | cons y ys ih =>
    simp only [firstOccs, List.nodup_cons, List.mem_filter, decide_eq_true_eq, ne_eq,
      not_true_eq_false, and_false, not_false_eq_true, true_and]
    exact ih.filter _

theorem registerAll_tys {t : MetaTable} (h : MetaInv t) (regs : List Nat) :
    (t.registerAll regs).tys = t.tys ++ (firstOccs regs).filter (· ∉ t.tys) := by
  induction regs generalizing t with
  | nil => simp [MetaTable.registerAll, firstOccs]
  | cons r rs ih =>
    have := ih (h.register r)
    simp only [MetaTable.registerAll, List.foldl_cons] at this ⊢
    rw [this, register_tys h]
    by_cases hm : r ∈ t.tys
    · rw [if_pos hm]
      simp only [firstOccs, List.filter_cons, hm, not_true_eq_false, decide_false,
        Bool.false_eq_true, if_false, List.filter_filter]
      congr 1
      apply List.filter_congr
      intro x _
      by_cases hx : x = r
      · subst hx; simp [hm]
      · simp [hx]
    · rw [if_neg hm]
      simp only [firstOccs, List.filter_cons, hm, not_false_eq_true, decide_true,
        if_true, List.filter_filter, List.append_assoc, List.cons_append, List.nil_append]
      congr 2
      apply List.filter_congr
      intro x _
      by_cases hx : x = r
      · subst hx; simp
      · simp [hx]

/-! ## `get` -/

theorem getMut_eq_get (cast : CastFn) (t : MetaTable) (r : ResRef) :
    t.getMut cast r = t.get cast r := rfl

theorem get_of_not_mem {t : MetaTable} (h : MetaInv t) (cast : CastFn) {r : ResRef}
    (hm : r.ty ∉ t.tys) : t.get cast r = .none := by
  unfold MetaTable.get
  simp only [(h.not_mem_iff r.ty).mp hm]

theorem get_of_mem {t : MetaTable} (h : MetaInv t) (cast : CastFn) {r : ResRef}
    (hm : r.ty ∈ t.tys) :
    t.get cast r =
      if (cast r.ty r.addr).addr = r.addr then .some (cast r.ty r.addr) else .panic .badCast := by
  obtain ⟨i, hi⟩ := (h.mem_iff r.ty).mp hm
  have hget := (h.idx r.ty i).mp hi
  unfold MetaTable.get
  simp only [hi, h.vt, hget, attachVtable]
  by_cases hc : (cast r.ty r.addr).addr = r.addr
  · simp [hc]
  · simp [hc]

/-! ## the world -/

theorem MWorld.set_cell (w : MWorld) (ty : Nat) (c : Option MCell) (k : Nat) :
    (w.set ty c).cell k = if k = ty then c else w.cell k := rfl

theorem MWorld.set_present (w : MWorld) (ty : Nat) (c : MCell) (k : Nat)
    (hp : w.present ty = true) : (w.set ty (some c)).present k = w.present k := by
  unfold MWorld.present at *
  rw [MWorld.set_cell]
  by_cases hk : k = ty
  · subst hk; simp [hp]
  · simp [hk]

/-! ## `next` -/

/-- cells of absent types are skipped -/
theorem nextFrom_skip (cast : CastFn) (vt : List Nat) (excl : Bool) (pre rest : List Nat)
    (i : Nat) (w : MWorld) (hpre : ∀ ty ∈ pre, w.cell ty = none) :
    nextFrom cast vt excl (pre ++ rest) i w = nextFrom cast vt excl rest (i + pre.length) w := by
  induction pre generalizing i with
  | nil => simp
  | cons p ps ih =>
    have hp : w.cell p = none := hpre p (by simp)
    simp only [List.cons_append, nextFrom, hp]
    rw [ih (i + 1) (fun ty hty => hpre ty (by simp [hty]))]
    simp only [List.length_cons]
    congr 1; omega

/-- the answer of `next` when the first type at or after the index whose resource is present is
`ty` (at position `j`), from a table satisfying the invariant part `vt = tys` -/
theorem nextFrom_hit (cast : CastFn) (tys : List Nat) (excl : Bool) (i : Nat) (w : MWorld)
    (pre : List Nat) (ty : Nat) (rest : List Nat) (c : MCell)
    (hd : tys.drop i = pre ++ ty :: rest)
    (hpre : ∀ x ∈ pre, w.cell x = none) (hc : w.cell ty = some c) :
    nextFrom cast tys excl (tys.drop i) i w =
      match Shred.tryBorrow c.borrow excl with
      | none => ⟨w, i + pre.length + 1, .panic .borrowed⟩
      | some b' =>
        if (cast ty c.addr).addr = c.addr then
          ⟨w.set ty (some { c with borrow := b' }), i + pre.length + 1, .item (cast ty c.addr)⟩
        else ⟨w, i + pre.length + 1, .panic .badCast⟩ := by
  rw [hd, nextFrom_skip cast tys excl pre (ty :: rest) i w hpre]
  have hidx : tys[i + pre.length]? = some ty := by
    have : (tys.drop i)[pre.length]? = some ty := by rw [hd]; simp
    rw [List.getElem?_drop] at this
    exact this
  simp only [nextFrom, hc, hidx, attachVtable]
  cases Shred.tryBorrow c.borrow excl with
  | none => rfl
  | some b' =>
    simp only []
    by_cases hcast : (cast ty c.addr).addr = c.addr
    · simp [hcast]
    · simp [hcast]

theorem nextFrom_miss (cast : CastFn) (vt : List Nat) (excl : Bool) (rest : List Nat) (i : Nat)
    (w : MWorld) (h : ∀ x ∈ rest, w.cell x = none) :
    nextFrom cast vt excl rest i w = ⟨w, i + rest.length, .none⟩ := by
  have := nextFrom_skip cast vt excl rest [] i w h
  simpa [nextFrom] using this

/-- splitting a list at the first element satisfying `p` -/
theorem split_first (p : Nat → Bool) (l : List Nat) :
    (∀ x ∈ l, p x = false) ∨
      ∃ pre x rest, l = pre ++ x :: rest ∧ (∀ y ∈ pre, p y = false) ∧ p x = true := by
  induction l with
  | nil => left; simp
  | cons a as ih =>
    by_cases ha : p a = true
    · right; exact ⟨[], a, as, rfl, by simp, ha⟩
    · rcases ih with h | ⟨pre, x, rest, he, hpre, hx⟩
      · left
        intro y hy
        rcases List.mem_cons.mp hy with rfl | hy
        · simpa using ha
        · exact h y hy
      · right
        refine ⟨a :: pre, x, rest, by simp [he], ?_, hx⟩
        intro y hy
        rcases List.mem_cons.mp hy with rfl | hy
        · simpa using ha
        · exact hpre y hy

/-! ## collecting an iterator -/

/-- a cell after one more successful borrow of the given kind -/
def borrowCell (excl : Bool) (c : MCell) : MCell :=
  { c with borrow := (Shred.tryBorrow c.borrow excl).getD c.borrow }

theorem next_eq (cast : CastFn) (t : MetaTable) (w : MWorld) (i : Nat) (excl : Bool) :
    t.next cast w ⟨i, excl⟩ =
      ((nextFrom cast t.vtableFns excl (t.tys.drop i) i w).world,
       ⟨(nextFrom cast t.vtableFns excl (t.tys.drop i) i w).index, excl⟩,
       (nextFrom cast t.vtableFns excl (t.tys.drop i) i w).out) := rfl

theorem collectN_succ (cast : CastFn) (t : MetaTable) (excl : Bool) (fuel : Nat) (w : MWorld)
    (i : Nat) (acc : List TraitPtr) :
    collectN cast t excl (fuel + 1) w i acc =
      match (nextFrom cast t.vtableFns excl (t.tys.drop i) i w) with
      | ⟨w', i', .none⟩ => ⟨w', i', acc, none⟩
      | ⟨w', i', .panic e⟩ => ⟨w', i', acc, some e⟩
      | ⟨w', i', .item p⟩ => collectN cast t excl fuel w' i' (acc ++ [p]) := by
  rw [collectN, next_eq]
  generalize nextFrom cast t.vtableFns excl (t.tys.drop i) i w = s
  obtain ⟨w', i', o⟩ := s
  cases o <;> rfl

theorem drop_succ_of_drop_cons {l : List Nat} {i x : Nat} {rest : List Nat}
    (h : l.drop i = x :: rest) : l.drop (i + 1) = rest := by
  have : l.drop (i + 1) = (l.drop i).drop 1 := by rw [List.drop_drop]
  rw [this, h]; rfl

theorem getElem?_of_drop_cons {l : List Nat} {i x : Nat} {rest : List Nat}
    (h : l.drop i = x :: rest) : l[i]? = some x := by
  have : (l.drop i)[0]? = some x := by rw [h]; rfl
  rw [List.getElem?_drop] at this
  simpa using this

/-- The whole loop, from any position: if every remaining registered cell that is present can be
borrowed and has an address-preserving cast (whatever vtable it attaches), the loop ends with `None`, having produced one item
per present remaining type, in table order, and having borrowed exactly those cells. -/
theorem collectN_spec (cast : CastFn) (t : MetaTable) (excl : Bool) (hvt : t.vtableFns = t.tys) :
    ∀ (rest : List Nat) (i : Nat) (w : MWorld) (acc : List TraitPtr) (fuel : Nat),
      t.tys.drop i = rest → rest.length < fuel → rest.Nodup →
      (∀ ty ∈ rest, ∀ c, w.cell ty = some c →
        (Shred.tryBorrow c.borrow excl).isSome ∧ (cast ty c.addr).addr = c.addr) →
      (collectN cast t excl fuel w i acc).panic = none ∧
      (collectN cast t excl fuel w i acc).index = i + rest.length ∧
      (collectN cast t excl fuel w i acc).items =
        acc ++ (rest.filter w.present).map (fun ty => cast ty (addrOf w ty)) ∧
      ∀ k, (collectN cast t excl fuel w i acc).world.cell k =
        if k ∈ rest then (w.cell k).map (borrowCell excl) else w.cell k := by
  intro rest
  induction rest with
  | nil =>
    intro i w acc fuel hd hf _ _
    obtain ⟨n, rfl⟩ : ∃ n, fuel = n + 1 := ⟨fuel - 1, by simp at hf; omega⟩
    rw [collectN_succ, hd]
    simp [nextFrom]
  | cons ty rest ih =>
    intro i w acc fuel hd hf hnd hok
    obtain ⟨n, rfl⟩ : ∃ n, fuel = n + 1 := ⟨fuel - 1, by simp at hf; omega⟩
    have hd' := drop_succ_of_drop_cons hd
    have hnd' : rest.Nodup := (List.nodup_cons.mp hnd).2
    have hty : ty ∉ rest := (List.nodup_cons.mp hnd).1
    cases hc : w.cell ty with
    | none =>
      -- absent: this call of `next` is the call at `i + 1`
      have hstep : collectN cast t excl (n + 1) w i acc = collectN cast t excl (n + 1) w (i + 1) acc := by
        rw [collectN_succ, collectN_succ, hd, hd']
        simp only [nextFrom, hc]
      rw [hstep]
      obtain ⟨h1, h2, h3, h4⟩ := ih (i + 1) w acc (n + 1) hd' (by simp at hf ⊢; omega) hnd'
        (fun x hx => hok x (by simp [hx]))
      refine ⟨h1, ?_, ?_, ?_⟩
      · rw [h2]; simp only [List.length_cons]; omega
      · rw [h3]
        have : w.present ty = false := by simp [MWorld.present, hc]
        simp [this]
      · intro k
        rw [h4 k]
        by_cases hk : k = ty
        · subst hk; simp [hty, hc]
        · simp [hk]
    | some c =>
      obtain ⟨hb, hcast⟩ := hok ty (by simp) c hc
      obtain ⟨b', hb'⟩ := Option.isSome_iff_exists.mp hb
      have hidx : t.tys[i]? = some ty := getElem?_of_drop_cons hd
      have hstep : collectN cast t excl (n + 1) w i acc =
          collectN cast t excl n (w.set ty (some { c with borrow := b' })) (i + 1)
            (acc ++ [cast ty c.addr]) := by
        rw [collectN_succ, hd]
        simp only [nextFrom, hc, hvt, hidx, hb', attachVtable, hcast, if_true]
      rw [hstep]
      have hpres : w.present ty = true := by simp [MWorld.present, hc]
      have hcell' : ∀ k, k ≠ ty → (w.set ty (some { c with borrow := b' })).cell k = w.cell k := by
        intro k hk; simp [MWorld.set_cell, hk]
      obtain ⟨h1, h2, h3, h4⟩ := ih (i + 1) (w.set ty (some { c with borrow := b' }))
        (acc ++ [cast ty c.addr]) n hd' (by simp at hf; omega) hnd'
        (fun x hx c' hc' => by
          have hne : x ≠ ty := fun e => hty (e ▸ hx)
          rw [hcell' x hne] at hc'
          exact hok x (by simp [hx]) c' hc')
      refine ⟨h1, ?_, ?_, ?_⟩
      · rw [h2]; simp only [List.length_cons]; omega
      · rw [h3]
        simp only [List.filter_cons, hpres, if_true, List.map_cons, List.append_assoc,
          List.cons_append, List.nil_append]
        congr 2
        · simp [addrOf, hc]
        · have hf' : rest.filter (w.set ty (some { c with borrow := b' })).present
              = rest.filter w.present := by
            apply List.filter_congr
            intro x _
            exact MWorld.set_present w ty _ x hpres
          rw [hf']
          apply List.map_congr_left
          intro x hx
          have hne : x ≠ ty := fun e => hty (e ▸ (List.mem_filter.mp hx).1)
          simp [addrOf, hcell' x hne]
      · intro k
        rw [h4 k]
        by_cases hk : k = ty
        · subst hk
          simp [hty, MWorld.set_cell, hc, borrowCell, hb']
        · simp [hk, hcell' k hk]

/-- a call of `next` that does not return `None` advances the index, and there was a type left -/
theorem nextFrom_progress (cast : CastFn) (vt : List Nat) (excl : Bool) (rest : List Nat) (i : Nat)
    (w : MWorld) (h : (nextFrom cast vt excl rest i w).out ≠ .none) :
    i < (nextFrom cast vt excl rest i w).index ∧
      (nextFrom cast vt excl rest i w).index ≤ i + rest.length := by
  induction rest generalizing i with
  | nil => simp [nextFrom] at h
  | cons ty rest ih =>
    simp only [nextFrom] at h ⊢
    cases hc : w.cell ty with
    | none =>
      simp only [hc] at h ⊢
      have := ih (i + 1) h
      simp only [List.length_cons]; omega
    | some c =>
      simp only [hc] at h ⊢
      cases vt[i]? with
      | none => simp
      | some f =>
        simp only []
        cases Shred.tryBorrow c.borrow excl with
        | none => simp
        | some b' =>
          simp only []
          cases attachVtable cast f c.addr <;> simp

/-- `tys.len() + 1` calls are always enough: more fuel changes nothing -/
theorem collectN_fuel (cast : CastFn) (t : MetaTable) (excl : Bool) :
    ∀ (fuel : Nat) (w : MWorld) (i : Nat) (acc : List TraitPtr), t.tys.length - i < fuel →
      collectN cast t excl (fuel + 1) w i acc = collectN cast t excl fuel w i acc := by
  intro fuel
  induction fuel with
  | zero => intro w i acc h; omega
  | succ n ih =>
    intro w i acc h
    rw [collectN_succ cast t excl (n + 1), collectN_succ cast t excl n]
    have hp := nextFrom_progress cast t.vtableFns excl (t.tys.drop i) i w
    generalize nextFrom cast t.vtableFns excl (t.tys.drop i) i w = s at hp
    obtain ⟨w', i', o⟩ := s
    cases o with
    | none => rfl
    | panic e => rfl
    | item p =>
      simp only []
      have := hp (by simp)
      simp only [List.length_drop] at this
      exact ih w' i' (acc ++ [p]) (by omega)

end Meta
end Shred
