import ShredModel.Model.Stage
/-! Generic facts about `Table` operations and small list helpers. -/
namespace Shred

theorem getElem?_modify_eq {α} (l : List α) (k : Nat) (f : α → α) (a : α) (h : l[k]? = some a) :
    (l.modify k f)[k]? = some (f a) := by
  simp [h]

theorem getElem?_modify_ne {α} (l : List α) (k j : Nat) (f : α → α) (h : k ≠ j) :
    (l.modify k f)[j]? = l[j]? := by
  rw [List.getElem?_modify]
  cases l[j]? <;> simp [h]

theorem mem_modify {α} {l : List α} {k : Nat} {f : α → α} {x : α} (hx : x ∈ l.modify k f) :
    x ∈ l ∨ ∃ a, l[k]? = some a ∧ x = f a := by
  obtain ⟨j, hj⟩ := List.mem_iff_getElem?.mp hx
  by_cases hkj : k = j
  · subst hkj
    rw [List.getElem?_modify] at hj
    cases hl : l[k]? with
    | none => simp [hl] at hj
    | some a => simp [hl] at hj; exact Or.inr ⟨a, rfl, hj.symm⟩
  · rw [getElem?_modify_ne _ _ _ _ hkj] at hj
    exact Or.inl (List.mem_of_getElem? hj)

theorem mem_dedup {α} [DecidableEq α] {l : List α} {x : α} : x ∈ dedup l ↔ x ∈ l := by
  induction l with
  | nil => simp [dedup]
  | cons y ys ih =>
    simp only [dedup]
    split
    · rename_i hy
      rw [ih]
      constructor
      · exact fun h => List.mem_cons_of_mem _ h
      · intro h; rcases List.mem_cons.mp h with rfl | h
        · exact hy
        · exact h
    · simp [ih]

theorem nodup_dedup {α} [DecidableEq α] (l : List α) : (dedup l).Nodup := by
  induction l with
  | nil => simp [dedup]
  | cons y ys ih =>
    simp only [dedup]
    split
    · exact ih
    · rename_i hy
      exact List.nodup_cons.mpr ⟨fun h => hy (mem_dedup.mp h), ih⟩

theorem mem_insertSorted {x y : ResId} {l : List ResId} : y ∈ insertSorted x l ↔ y = x ∨ y ∈ l := by
  induction l with
  | nil => simp [insertSorted]
  | cons z zs ih =>
    simp only [insertSorted]
    split
    · simp
    · simp [ih]; constructor <;> (intro h; rcases h with h | h | h <;> simp [h])

theorem mem_sortDedup {l : List ResId} {x : ResId} : x ∈ sortDedup l ↔ x ∈ l := by
  unfold sortDedup
  rw [mem_dedup]
  induction l with
  | nil => simp
  | cons y ys ih => simp [List.foldr, mem_insertSorted, ih]

namespace Table
variable {α : Type}

theorem get?_eq_some {t : Table α} {s g : Nat} {a : α} :
    t.get? s g = some a ↔ ∃ st, t[s]? = some st ∧ st[g]? = some a := by
  unfold get?
  cases h : t[s]? with
  | none => simp
  | some st => simp

@[simp] theorem shape_length (t : Table α) : t.shape.length = t.length := by simp [shape]

theorem shape_getElem? (t : Table α) (s : Nat) : t.shape[s]? = (t[s]?).map List.length := by
  simp [shape]

theorem shape_addStage (t : Table α) : (t.addStage).shape = t.shape ++ [0] := by
  simp [shape, addStage]

theorem shape_update (t : Table α) (s g : Nat) (f : α → α) : (t.update s g f).shape = t.shape := by
  apply List.ext_getElem?
  intro i
  simp only [shape, update, List.getElem?_map, List.getElem?_modify]
  cases t[i]? with
  | none => rfl
  | some st => by_cases h : s = i <;> simp [h]

theorem shape_addGroup (t : Table α) (s : Nat) (e : α) :
    (t.addGroup s e).shape = t.shape.modify s (· + 1) := by
  apply List.ext_getElem?
  intro i
  simp only [shape, addGroup, List.getElem?_map, List.getElem?_modify]
  cases t[i]? with
  | none => rfl
  | some st => by_cases h : s = i <;> simp [h]

theorem get?_addStage (t : Table α) (s g : Nat) : (t.addStage).get? s g = t.get? s g := by
  unfold get? addStage
  by_cases h : s < t.length
  · rw [List.getElem?_append_left h]
  · rw [List.getElem?_append_right (by omega)]
    have : t[s]? = none := List.getElem?_eq_none (by omega)
    rw [this]
    cases hh : s - t.length with
    | zero => simp
    | succ n => simp

theorem get?_update (t : Table α) (s g : Nat) (f : α → α) (s' g' : Nat) :
    (t.update s g f).get? s' g' =
      if s' = s ∧ g' = g then (t.get? s g).map f else t.get? s' g' := by
  unfold get? update
  by_cases hs : s = s'
  · subst hs
    rw [List.getElem?_modify]
    cases t[s]? with
    | none => simp
    | some st =>
      simp only [Option.map_eq_map, Option.map_some, if_true, true_and]
      by_cases hg : g = g'
      · subst hg; simp
      · have : ¬ g' = g := fun h => hg h.symm
        simp [this, getElem?_modify_ne _ _ _ _ hg]
  · have : ¬ s' = s := fun h => hs h.symm
    rw [getElem?_modify_ne _ _ _ _ hs]
    simp [this]

theorem get?_addGroup (t : Table α) (s : Nat) (e : α) (s' g' : Nat) :
    (t.addGroup s e).get? s' g' =
      if s' = s ∧ (∃ st, t[s]? = some st ∧ g' = st.length) then some e else t.get? s' g' := by
  unfold get? addGroup
  by_cases hs : s = s'
  · subst hs
    rw [List.getElem?_modify]
    cases hst : t[s]? with
    | none => simp
    | some st =>
      simp only [Option.map_eq_map, Option.map_some, if_true, true_and]
      by_cases hg : g' = st.length
      · subst hg; simp
      · have : ¬ ∃ st', some st = some st' ∧ g' = st'.length := by
          rintro ⟨st', h1, h2⟩; cases h1; exact hg h2
        rw [if_neg this]
        by_cases hlt : g' < st.length
        · rw [List.getElem?_append_left hlt]
        · have h1 : (st ++ [e])[g']? = none := List.getElem?_eq_none (by simp; omega)
          have h2 : st[g']? = none := List.getElem?_eq_none (by omega)
          rw [h1, h2]
  · have : ¬ s' = s := fun h => hs h.symm
    rw [getElem?_modify_ne _ _ _ _ hs]
    simp [this]


theorem exists_len_iff_shape (t : Table α) (s g' : Nat) :
    (∃ st, t[s]? = some st ∧ g' = st.length) ↔ t.shape[s]? = some g' := by
  rw [shape_getElem?]
  cases t[s]? with
  | none => simp
  | some st => simp [eq_comm]

theorem get?_addGroup' (t : Table α) (s : Nat) (e : α) (s' g' : Nat) :
    (t.addGroup s e).get? s' g' =
      if s' = s ∧ t.shape[s]? = some g' then some e else t.get? s' g' := by
  rw [get?_addGroup]
  simp only [exists_len_iff_shape]

theorem modify_append_last {β} (st : List β) (e : β) (f : β → β) :
    (st ++ [e]).modify st.length f = st ++ [f e] := by
  induction st with
  | nil => rfl
  | cons x xs ih => simp [List.modify_succ_cons, ih]

theorem addGroup_update (t : Table α) (s : Nat) (e : α) (f : α → α) (st : List α) (h : t[s]? = some st) :
    (t.addGroup s e).update s st.length f = t.addGroup s (f e) := by
  unfold addGroup update
  apply List.ext_getElem?
  intro i
  by_cases hi : s = i
  · subst hi
    simp [h, modify_append_last]
  · simp [getElem?_modify_ne _ _ _ _ hi]

theorem addStage_addGroup (t : Table α) (e : α) : (t.addStage).addGroup t.length e = t ++ [[e]] := by
  unfold addStage addGroup
  apply List.ext_getElem?
  intro i
  by_cases hi : i < t.length
  · rw [getElem?_modify_ne _ _ _ _ (by omega), List.getElem?_append_left hi, List.getElem?_append_left hi]
  · by_cases hi' : i = t.length
    · subst hi'
      simp [List.getElem?_modify]
    · rw [getElem?_modify_ne _ _ _ _ (fun h => hi' h.symm)]
      rw [List.getElem?_append_right (by omega), List.getElem?_append_right (by omega)]
      have : i - t.length ≠ 0 := by omega
      cases hh : i - t.length with
      | zero => exact absurd hh this
      | succ n => simp

end Table
end Shred
