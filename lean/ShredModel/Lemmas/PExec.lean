import ShredModel.Lemmas.Exec
import ShredModel.Model.PTask
/-!
# Dispatch with panicking systems (C14)

`PTraces pan t l o`: `l` is a possible event sequence of `t` when exactly the instances in
`pan` panic inside `run`; `o = true` iff a panic leaves `t`. A panicking leaf emits `F s`,
`P s` (`P`: unwound, guards dropped). A `seq` stops after a panicking child. At a `par` both
children run to their own end (rayon's `join` waits for the sibling before re-raising).
A batch whose body panics is unwound itself (`P s`).
-/
namespace Shred
variable {ι : Type} [DecidableEq ι]

inductive PTraces (pan : ι → Prop) : Task ι → List (PEv ι) → Bool → Prop
  | nil : PTraces pan .nil [] false
  | leafOk {s} : ¬ pan s → PTraces pan (.leaf s) [.F s, .D s] false
  | leafPanic {s} : pan s → PTraces pan (.leaf s) [.F s, .P s] true
  | seqOk {a b la lb o} : PTraces pan a la false → PTraces pan b lb o → PTraces pan (.seq a b) (la ++ lb) o
  | seqPanic {a b la} : PTraces pan a la true → PTraces pan (.seq a b) la true
  | par {a b la lb l oa ob} : PTraces pan a la oa → PTraces pan b lb ob → Shuffle la lb l →
      PTraces pan (.par a b) l (oa || ob)
  | scopeOk {s body l} : PTraces pan body l false → PTraces pan (.scope s body) (.F s :: l ++ [.D s]) false
  | scopePanic {s body l} : PTraces pan body l true → PTraces pan (.scope s body) (.F s :: l ++ [.P s]) true

variable {pan : ι → Prop}

theorem pev_sys {t : Task ι} {l : List (PEv ι)} {o : Bool} (h : PTraces pan t l o) :
    ∀ e, e ∈ l → e.sys ∈ t.sys := by
  induction h with
  | nil => intro e he; cases he
  | leafOk _ => intro e he; simp at he; rcases he with rfl | rfl <;> simp [PEv.sys, Task.sys]
  | leafPanic _ => intro e he; simp at he; rcases he with rfl | rfl <;> simp [PEv.sys, Task.sys]
  | seqOk _ _ iha ihb =>
    intro e he
    rcases List.mem_append.mp he with h | h
    · simp [Task.sys, iha e h]
    · simp [Task.sys, ihb e h]
  | seqPanic _ iha => intro e he; simp [Task.sys, iha e he]
  | par _ _ hs iha ihb =>
    intro e he
    rcases (hs.mem_iff e).mp he with h | h
    · simp [Task.sys, iha e h]
    · simp [Task.sys, ihb e h]
  | scopeOk _ ih =>
    intro e he
    simp at he
    rcases he with rfl | h | rfl
    · simp [PEv.sys, Task.sys]
    · simp [Task.sys, ih e h]
    · simp [PEv.sys, Task.sys]
  | scopePanic _ ih =>
    intro e he
    simp at he
    rcases he with rfl | h | rfl
    · simp [PEv.sys, Task.sys]
    · simp [Task.sys, ih e h]
    · simp [PEv.sys, Task.sys]

/-- a panic leaves the task iff some instance emitted `P` -/
theorem panicked_iff {t : Task ι} {l : List (PEv ι)} {o : Bool} (h : PTraces pan t l o) :
    o = true ↔ ∃ s, PEv.P s ∈ l := by
  induction h with
  | nil => simp
  | leafOk _ => simp
  | leafPanic _ => simp
  | seqOk _ _ iha ihb =>
    rw [ihb]
    constructor
    · rintro ⟨s, hs⟩; exact ⟨s, List.mem_append_right _ hs⟩
    · rintro ⟨s, hs⟩
      rcases List.mem_append.mp hs with h | h
      · exact absurd (iha.mpr ⟨s, h⟩) (by simp)
      · exact ⟨s, h⟩
  | seqPanic _ iha => exact iha
  | par _ _ hs iha ihb =>
    rw [Bool.or_eq_true, iha, ihb]
    constructor
    · rintro (⟨s, h⟩ | ⟨s, h⟩)
      · exact ⟨s, (hs.mem_iff _).mpr (Or.inl h)⟩
      · exact ⟨s, (hs.mem_iff _).mpr (Or.inr h)⟩
    · rintro ⟨s, h⟩
      rcases (hs.mem_iff _).mp h with h | h
      · exact Or.inl ⟨s, h⟩
      · exact Or.inr ⟨s, h⟩
  | scopeOk _ ih =>
    constructor
    · intro h; cases h
    · rintro ⟨s, hs⟩
      simp at hs
      exact absurd (ih.mpr ⟨s, hs⟩) (by simp)
  | scopePanic _ _ => simp

/-- only systems that were told to panic, or batches around them, emit `P`; and every `P` of a
leaf is a panicking leaf -/
theorem panic_source {t : Task ι} {l : List (PEv ι)} {o : Bool} (h : PTraces pan t l o) :
    o = true → ∃ s, pan s ∧ PEv.P s ∈ l := by
  induction h with
  | nil => intro h; cases h
  | leafOk _ => intro h; cases h
  | @leafPanic s hp => intro _; exact ⟨s, hp, by simp⟩
  | seqOk _ _ _ ihb =>
    intro h
    obtain ⟨s, hp, hs⟩ := ihb h
    exact ⟨s, hp, List.mem_append_right _ hs⟩
  | seqPanic _ iha => exact iha
  | @par a b la lb l oa ob _ _ hs iha ihb =>
    intro h
    rw [Bool.or_eq_true] at h
    rcases h with h | h
    · obtain ⟨s, hp, hs'⟩ := iha h
      exact ⟨s, hp, (hs.mem_iff _).mpr (Or.inl hs')⟩
    · obtain ⟨s, hp, hs'⟩ := ihb h
      exact ⟨s, hp, (hs.mem_iff _).mpr (Or.inr hs')⟩
  | scopeOk _ _ => intro h; cases h
  | scopePanic _ ih =>
    intro _
    obtain ⟨s, hp, hs⟩ := ih rfl
    exact ⟨s, hp, by simp [hs]⟩

/-- **C14: whoever comes after a panicking system does not run.** If `x` is ordered before `y`
and `x` (or the batch `x`) was unwound by a panic, `y` never fetches. -/
theorem dependents_dont_run {t : Task ι} {l : List (PEv ι)} {o : Bool} (h : PTraces pan t l o) :
    t.sys.Nodup → ∀ x y, Before t x y → PEv.P x ∈ l → PEv.F y ∉ l := by
  induction h with
  | nil => intro _ x y hb; cases hb
  | leafOk _ => intro _ x y hb; cases hb
  | leafPanic _ => intro _ x y hb; cases hb
  | @seqOk a b la lb o ha hb iha ihb =>
    intro hnd x y hbef hP hF
    simp only [Task.sys] at hnd
    obtain ⟨hna, hnb, hdisj⟩ := List.nodup_append.mp hnd
    have noPa : ∀ s, PEv.P s ∉ la := fun s hs => by
      have := (panicked_iff ha).mpr ⟨s, hs⟩; cases this
    cases hbef with
    | here hx hy =>
      rcases List.mem_append.mp hP with h | h
      · exact noPa x h
      · exact hdisj x hx x (pev_sys hb _ h) rfl
    | seqL hb' =>
      rcases List.mem_append.mp hP with h | h
      · exact noPa x h
      · exact hdisj x (before_mem hb').1 x (pev_sys hb _ h) rfl
    | seqR hb' =>
      rcases List.mem_append.mp hP with h | h
      · exact noPa x h
      · rcases List.mem_append.mp hF with h' | h'
        · exact hdisj y (pev_sys ha _ h') y (before_mem hb').2 rfl
        · exact ihb hnb x y hb' h h'
  | @seqPanic a b la ha iha =>
    intro hnd x y hbef hP hF
    simp only [Task.sys] at hnd
    obtain ⟨hna, hnb, hdisj⟩ := List.nodup_append.mp hnd
    cases hbef with
    | here hx hy => exact hdisj y (pev_sys ha _ hF) y hy rfl
    | seqL hb' => exact iha hna x y hb' hP hF
    | seqR hb' => exact hdisj y (pev_sys ha _ hF) y (before_mem hb').2 rfl
  | @par a b la lb l oa ob ha hb hs iha ihb =>
    intro hnd x y hbef hP hF
    simp only [Task.sys] at hnd
    obtain ⟨hna, hnb, hdisj⟩ := List.nodup_append.mp hnd
    cases hbef with
    | parL hb' =>
      have hPa : PEv.P x ∈ la := by
        rcases (hs.mem_iff _).mp hP with h | h
        · exact h
        · exact absurd rfl (hdisj x (before_mem hb').1 x (pev_sys hb _ h))
      have hFa : PEv.F y ∈ la := by
        rcases (hs.mem_iff _).mp hF with h | h
        · exact h
        · exact absurd rfl (hdisj y (before_mem hb').2 y (pev_sys hb _ h))
      exact iha hna x y hb' hPa hFa
    | parR hb' =>
      have hPb : PEv.P x ∈ lb := by
        rcases (hs.mem_iff _).mp hP with h | h
        · exact absurd rfl (hdisj x (pev_sys ha _ h) x (before_mem hb').1)
        · exact h
      have hFb : PEv.F y ∈ lb := by
        rcases (hs.mem_iff _).mp hF with h | h
        · exact absurd rfl (hdisj y (pev_sys ha _ h) y (before_mem hb').2)
        · exact h
      exact ihb hnb x y hb' hPb hFb
  | @scopeOk s body l hb ih =>
    intro hnd x y hbef hP hF
    simp only [Task.sys] at hnd
    obtain ⟨hs, hnb⟩ := List.nodup_cons.mp hnd
    cases hbef with
    | scope hb' =>
      simp at hP hF
      have hys : y ≠ s := fun h => hs (h ▸ (before_mem hb').2)
      rcases hF with h | h
      · exact hys h
      · exact ih hnb x y hb' hP h
  | @scopePanic s body l hb ih =>
    intro hnd x y hbef hP hF
    simp only [Task.sys] at hnd
    obtain ⟨hs, hnb⟩ := List.nodup_cons.mp hnd
    cases hbef with
    | scope hb' =>
      simp at hP hF
      have hys : y ≠ s := fun h => hs (h ▸ (before_mem hb').2)
      have hxs : x ≠ s := fun h => hs (h ▸ (before_mem hb').1)
      rcases hF with h | h
      · exact hys h
      · rcases hP with h' | h'
        · exact ih hnb x y hb' h' h
        · exact hxs h'

#print axioms dependents_dont_run
end Shred
