import ShredModel.Model.CellWord
/-!
# The borrow word refines the abstract borrow state, for every sequence of atomic steps
-/
namespace Shred
namespace CellWord

theorem step_refines {H : Nat} (hH : 1 < H) {w : Nat} {b : Borrow} (hr : Rel H w b) (op : COp)
    (hl : legal b op) (hb : ∀ n, b = .shared n → n + 1 < H) :
    Rel H (wordStep H w op).1 (absStep b op).1 ∧ (wordStep H w op).2 = (absStep b op).2 := by
  cases b with
  | free =>
    simp only [Rel] at hr
    subst hr
    cases op with
    | tryShared => simp [wordStep, absStep, tryBorrow, Rel]; omega
    | tryExcl => simp [wordStep, absStep, tryBorrow, Rel]
    | dropShared => exact absurd hl (by simp [legal])
    | dropExcl => exact absurd hl (by simp [legal])
  | shared n =>
    simp only [Rel] at hr
    obtain ⟨rfl, hpos, hlt⟩ := hr
    have hb' := hb w rfl
    cases op with
    | tryShared => simp [wordStep, absStep, tryBorrow, Rel, hb']
    | tryExcl =>
      have : w ≠ 0 := by omega
      simp [wordStep, absStep, tryBorrow, Rel, this, hpos, hlt]
    | dropShared =>
      cases w with
      | zero => omega
      | succ k =>
        cases k with
        | zero => simp [wordStep, absStep, releaseBorrow, Rel]
        | succ j => simp [wordStep, absStep, releaseBorrow, Rel]; omega
    | dropExcl => exact absurd hl (by simp [legal])
  | excl =>
    simp only [Rel] at hr
    cases op with
    | tryShared =>
      have : ¬ (w + 1 < H) := by omega
      simp [wordStep, absStep, tryBorrow, Rel, this]; omega
    | tryExcl =>
      have : w ≠ 0 := by omega
      simp [wordStep, absStep, tryBorrow, Rel, this, hr]
    | dropShared => exact absurd hl (by simp [legal])
    | dropExcl => simp [wordStep, absStep, releaseBorrow, Rel]

/-- **every sequence of atomic steps** (hence every interleaving of any number of threads
working on one cell) answers exactly what the abstract borrow state answers, and leaves a word
that stands for the abstract state reached -/
theorem run_refines {H : Nat} (hH : 1 < H) (ops : List COp) : ∀ {w : Nat} {b : Borrow},
    Rel H w b → LegalRun H b ops →
    Rel H (runWord H w ops).1 (runAbs b ops).1 ∧ (runWord H w ops).2 = (runAbs b ops).2 := by
  induction ops with
  | nil => intro w b hr _; exact ⟨hr, rfl⟩
  | cons op ops ih =>
    intro w b hr hl
    obtain ⟨hleg, hbound, hrest⟩ := hl
    obtain ⟨hr', ho⟩ := step_refines hH hr op hleg hbound
    obtain ⟨hr'', hos⟩ := ih hr' hrest
    simp only [runWord, runAbs]
    exact ⟨hr'', by rw [ho, hos]⟩

/-- the abstract state is never "shared and exclusive at once": `Borrow` has no such value; at
word level this reads: while an exclusive guard exists the word has the high bit, so no shared
attempt is granted, and an exclusive attempt is granted only on the word 0 -/
theorem no_grant_while_exclusive {H : Nat} {w : Nat} (h : H ≤ w) (hH : 0 < H) :
    (wordStep H w .tryShared).2 = false ∧ (wordStep H w .tryExcl).2 = false := by
  have h1 : ¬ (w + 1 < H) := by omega
  have h2 : w ≠ 0 := by omega
  simp [wordStep, h1, h2]

theorem no_exclusive_while_shared {H : Nat} {w : Nat} (h : 0 < w) :
    (wordStep H w .tryExcl).2 = false := by
  have : w ≠ 0 := by omega
  simp [wordStep, this]

end CellWord
end Shred
