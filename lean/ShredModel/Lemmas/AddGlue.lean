import ShredModel.Lemmas.IdRelabel
import ShredModel.Model.Builder
import ShredModel.Lemmas.Scenario
import ShredModel.Lemmas.Nested
/-!
# From `DispatcherBuilder::add` to the registration sequences of the proofs

`add` resolves dependency names through the name map, draws the system's id from a counter that
also advances on rejected calls, and hands `(dependencies, id, system)` to `StagesBuilder::insert`.
This file shows that the `StagesBuilder` inside a `DispatcherBuilder` after **any** sequence of
`add` / `add_barrier` calls (rejected ones included) is the fold of `SOp.stepI σ τ` over a list
of resolved registrations, for an injective numbering `σ` and the tagging `τ` the caller chose —
so `C19_ids_and_tags_irrelevant` and, through it, every `Scenario` theorem apply to it.
-/
namespace Shred

/-- what a caller does to a `DispatcherBuilder` -/
inductive BOp
  | add (tag : SysTag) (name : String) (deps : List String) (d : Decl)
  | barrier

def BOp.step (b : DispatcherBuilder) : BOp → DispatcherBuilder
  | .add tag name deps d => (b.add tag name deps d).1
  | .barrier => b.addBarrier

/-- numbering / tagging read off the lists of ids and tags of the accepted registrations;
beyond the lists an injective default that stays clear of every id below `m` -/
def numOf (ids : List Nat) (m : Nat) (n : Nat) : Nat := if h : n < ids.length then ids[n] else m + n
def tagOf (tags : List SysTag) (n : Nat) : SysTag := tags.getD n 0

/-- the fold over `stepI` only looks at `σ`, `τ` below the number of registrations made so far
(dependencies are indices of earlier registrations) -/
def DepsBelow : Nat → List SOp → Prop
  | _, [] => True
  | n, .barrier :: ops => DepsBelow n ops
  | n, .insert dep _ :: ops => (∀ k, k ∈ dep → k < n) ∧ DepsBelow (n + 1) ops

/-- number of registrations in a list of operations -/
def nIns : List SOp → Nat
  | [] => 0
  | .barrier :: ops => nIns ops
  | .insert _ _ :: ops => nIns ops + 1

theorem stepI_congr (σ σ' : Nat → Nat) (τ τ' : Nat → SysTag) (ops : List SOp) (st : StagesBuilder × Nat)
    (hd : DepsBelow st.2 ops) (hσ : ∀ k, k < st.2 + nIns ops → σ k = σ' k)
    (hτ : ∀ k, k < st.2 + nIns ops → τ k = τ' k) :
    ops.foldl (SOp.stepI σ τ) st = ops.foldl (SOp.stepI σ' τ') st := by
  induction ops generalizing st with
  | nil => rfl
  | cons op ops ih =>
    simp only [List.foldl]
    cases op with
    | barrier =>
      simp only [SOp.stepI]
      exact ih _ hd hσ hτ
    | insert dep d =>
      simp only [nIns] at hσ hτ
      have hd' : (∀ k, k ∈ dep → k < st.2) ∧ DepsBelow (st.2 + 1) ops := hd
      have e1 : dep.map σ = dep.map σ' := by
        apply List.map_congr_left
        intro k hk
        have h1 : k < st.2 := hd'.1 k hk
        exact hσ k (by omega)
      have e2 : σ st.2 = σ' st.2 := hσ _ (by omega)
      have e3 : τ st.2 = τ' st.2 := hτ _ (by omega)
      simp only [SOp.stepI, e1, e2, e3]
      apply ih
      · exact hd'.2
      · intro k hk; apply hσ; simp only at hk; omega
      · intro k hk; apply hτ; simp only at hk; omega

theorem stepI_count (σ : Nat → Nat) (τ : Nat → SysTag) (ops : List SOp) (st : StagesBuilder × Nat) :
    (ops.foldl (SOp.stepI σ τ) st).2 = st.2 + nIns ops := by
  induction ops generalizing st with
  | nil => rfl
  | cons op ops ih =>
    simp only [List.foldl]
    cases op with
    | barrier => simp only [SOp.stepI, nIns]; exact ih _
    | insert dep d => simp only [SOp.stepI, nIns]; rw [ih]; simp only; omega

theorem depsBelow_append (n : Nat) (ops : List SOp) (op : SOp) (h : DepsBelow n ops)
    (hop : match op with | .insert dep _ => ∀ k, k ∈ dep → k < n + nIns ops | .barrier => True) :
    DepsBelow n (ops ++ [op]) := by
  induction ops generalizing n with
  | nil =>
    cases op with
    | barrier => trivial
    | insert dep d => exact ⟨by simpa [nIns] using hop, trivial⟩
  | cons o ops ih =>
    cases o with
    | barrier => exact ih n h (by simpa [nIns] using hop)
    | insert dep d =>
      have h' : (∀ k, k ∈ dep → k < n) ∧ DepsBelow (n + 1) ops := h
      refine ⟨h'.1, ih (n + 1) h'.2 ?_⟩
      cases op with
      | barrier => trivial
      | insert dep' d' =>
        intro (k : Nat) hk
        have h1 : k < n + nIns (SOp.insert dep d :: ops) := hop k hk
        have h2 : nIns (SOp.insert dep d :: ops) = nIns ops + 1 := rfl
        show k < n + 1 + nIns ops
        omega

theorem nIns_append (ops : List SOp) (op : SOp) :
    nIns (ops ++ [op]) = nIns ops + (match op with | .insert _ _ => 1 | .barrier => 0) := by
  induction ops with
  | nil => cases op <;> rfl
  | cons o ops ih => cases o <;> simp [nIns, ih] <;> omega

theorem foldl_stepI_append (σ : Nat → Nat) (τ : Nat → SysTag) (ops : List SOp) (op : SOp) :
    (ops ++ [op]).foldl (SOp.stepI σ τ) ({}, 0) = SOp.stepI σ τ (ops.foldl (SOp.stepI σ τ) ({}, 0)) op := by
  simp [List.foldl_append]

namespace DispatcherBuilder

theorem resolve_ok_mem (m : List (String × SysId)) (deps : List String) (ids : List SysId)
    (h : resolve m deps = .ok ids) : ∀ d, d ∈ ids → ∃ p, p ∈ m ∧ p.2 = d := by
  induction deps generalizing ids with
  | nil => simp [resolve] at h; subst h; intro d hd; cases hd
  | cons x xs ih =>
    simp only [resolve] at h
    cases hl : lookup m x with
    | none => simp [hl] at h
    | some id =>
      simp only [hl] at h
      cases hr : resolve m xs with
      | error e => simp [hr] at h
      | ok rest =>
        simp only [hr, Except.ok.injEq] at h
        subst h
        intro d hd
        rcases List.mem_cons.mp hd with rfl | hd
        · unfold lookup at hl
          cases hf : List.find? (fun p => p.1 == x) m with
          | none => simp [hf] at hl
          | some p =>
            simp only [hf, Option.map_some, Option.some.injEq] at hl
            exact ⟨p, List.mem_of_find?_eq_some hf, hl⟩
        · exact ih rest hr d hd

end DispatcherBuilder

/-- the link between a `DispatcherBuilder` and a resolved registration sequence: `ids` / `tags` are
the ids and tags of the accepted registrations, in order -/
structure Glue (b : DispatcherBuilder) (ids : List Nat) (tags : List SysTag) (ops : List SOp) : Prop where
  len_ids : ids.length = nIns ops
  len_tags : tags.length = nIns ops
  lt : ∀ i, i ∈ ids → i < b.currentId
  sorted : ids.Pairwise (· < ·)
  map_ids : ∀ p, p ∈ b.map → p.2 ∈ ids
  deps : DepsBelow 0 ops
  eq : ∀ (σ : Nat → Nat) (τ : Nat → SysTag), (∀ k, (h : k < ids.length) → σ k = ids[k]) →
        (∀ k, k < tags.length → τ k = tags.getD k 0) →
        b.stagesBuilder = (ops.foldl (SOp.stepI σ τ) ({}, 0)).1

theorem glue_init : Glue {} [] [] [] :=
  ⟨rfl, rfl, by simp, List.Pairwise.nil, by simp, trivial, fun _ _ _ _ => rfl⟩

theorem glue_step {b : DispatcherBuilder} {ids : List Nat} {tags : List SysTag} {ops : List SOp}
    (h : Glue b ids tags ops) (bop : BOp) : ∃ ids' tags' ops', Glue (bop.step b) ids' tags' ops' := by
  cases bop with
  | barrier =>
    refine ⟨ids, tags, ops ++ [.barrier], ?_⟩
    refine ⟨by rw [nIns_append]; exact h.len_ids, by rw [nIns_append]; exact h.len_tags, h.lt, h.sorted,
      h.map_ids, depsBelow_append 0 ops _ h.deps trivial, ?_⟩
    intro σ τ hσ hτ
    rw [foldl_stepI_append]
    simp only [BOp.step, DispatcherBuilder.addBarrier, SOp.stepI]
    rw [h.eq σ τ hσ hτ]
  | add tag name deps d =>
    -- the three ways `add` can end
    have keep : ∀ (b' : DispatcherBuilder), b'.stagesBuilder = b.stagesBuilder → b'.map = b.map →
        b'.currentId = b.currentId + 1 → Glue b' ids tags ops := by
      intro b' hs hm hc
      exact ⟨h.len_ids, h.len_tags, fun i hi => by rw [hc]; exact Nat.lt_succ_of_lt (h.lt i hi), h.sorted,
        fun p hp => h.map_ids p (by rw [← hm]; exact hp), h.deps, fun σ τ hσ hτ => by rw [hs]; exact h.eq σ τ hσ hτ⟩
    simp only [BOp.step, DispatcherBuilder.add]
    cases hr : DispatcherBuilder.resolve b.map deps with
    | error x => exact ⟨ids, tags, ops, keep _ rfl rfl rfl⟩
    | ok dependencies =>
      simp only []
      -- a successful registration with map `m'`
      have succ : ∀ (m' : List (String × SysId)), (∀ p, p ∈ m' → p ∈ b.map ∨ p.2 = b.currentId) →
          ∃ ids' tags' ops', Glue (DispatcherBuilder.mk (b.currentId + 1) m'
            (b.stagesBuilder.insert dependencies b.currentId tag d) b.threadLocal) ids' tags' ops' := by
        intro m' hm'
        have hdep : ∀ x, x ∈ dependencies → x ∈ ids := by
          intro x hx
          obtain ⟨p, hp, rfl⟩ := DispatcherBuilder.resolve_ok_mem b.map deps dependencies hr x hx
          exact h.map_ids p hp
        let dep' : List Nat := dependencies.map fun x => ids.idxOf x
        refine ⟨ids ++ [b.currentId], tags ++ [tag], ops ++ [.insert dep' d], ?_⟩
        have hidx : ∀ x, x ∈ ids → ids.idxOf x < ids.length := fun x hx => List.idxOf_lt_length_of_mem hx
        refine ⟨?_, ?_, ?_, ?_, ?_, ?_, ?_⟩
        · rw [nIns_append]; simp [h.len_ids]
        · rw [nIns_append]; simp [h.len_tags]
        · intro i hi
          simp only [List.mem_append, List.mem_singleton] at hi
          rcases hi with hi | rfl
          · exact Nat.lt_succ_of_lt (h.lt i hi)
          · exact Nat.lt_succ_self _
        · rw [List.pairwise_append]
          exact ⟨h.sorted, by simp, fun a ha c hc => by simp at hc; subst hc; exact h.lt a ha⟩
        · intro p hp
          rcases hm' p hp with hp' | hp'
          · exact List.mem_append_left _ (h.map_ids p hp')
          · rw [hp']; simp
        · apply depsBelow_append 0 ops _ h.deps
          show ∀ k, k ∈ dep' → k < 0 + nIns ops
          intro k hk
          obtain ⟨x, hx, rfl⟩ := List.mem_map.mp hk
          have := hidx x (hdep x hx)
          rw [h.len_ids] at this
          omega
        · intro σ τ hσ hτ
          rw [foldl_stepI_append]
          have hσ' : ∀ k, (hk : k < ids.length) → σ k = ids[k] := by
            intro k hk
            have := hσ k (by simp; omega)
            rw [this, List.getElem_append_left hk]
          have hτ' : ∀ k, k < tags.length → τ k = tags.getD k 0 := by
            intro k hk
            have := hτ k (by simp; omega)
            rw [this]
            simp [List.getD_eq_getElem?_getD, List.getElem?_append_left hk]
          have hcount : (ops.foldl (SOp.stepI σ τ) ({}, 0)).2 = ids.length := by
            rw [stepI_count]; simp [h.len_ids]
          simp only [SOp.stepI, hcount]
          rw [← h.eq σ τ hσ' hτ']
          have e1 : dep'.map σ = dependencies := by
            simp only [dep', List.map_map]
            conv => rhs; rw [← List.map_id dependencies]
            apply List.map_congr_left
            intro x hx
            simp only [Function.comp, id]
            rw [hσ' _ (hidx x (hdep x hx))]
            exact List.getElem_idxOf (hidx x (hdep x hx))
          have e2 : σ ids.length = b.currentId := by
            have := hσ ids.length (by simp)
            rw [this]; simp
          have e3 : τ ids.length = tag := by
            have := hτ ids.length (by simp [h.len_ids, h.len_tags])
            rw [this]
            simp [List.getD_eq_getElem?_getD, h.len_ids, h.len_tags]
          rw [e1, e2, e3]
      split
      · rename_i hn
        split
        · exact ⟨ids, tags, ops, keep _ rfl rfl rfl⟩
        · exact succ _ (by
            intro p hp
            simp only [List.mem_cons] at hp
            rcases hp with rfl | hp
            · exact Or.inr rfl
            · exact Or.inl hp)
      · exact succ _ (fun p hp => Or.inl hp)

theorem glue_run (bops : List BOp) : ∃ ids tags ops, Glue (bops.foldl BOp.step {}) ids tags ops := by
  suffices ∀ (b : DispatcherBuilder) ids tags ops, Glue b ids tags ops →
      ∃ ids' tags' ops', Glue (bops.foldl BOp.step b) ids' tags' ops' from this {} [] [] [] glue_init
  induction bops with
  | nil => intro b ids tags ops h; exact ⟨ids, tags, ops, h⟩
  | cons bop bops ih =>
    intro b ids tags ops h
    obtain ⟨ids', tags', ops', h'⟩ := glue_step h bop
    exact ih _ ids' tags' ops' h'

theorem numOf_inj (ids : List Nat) (m : Nat) (hs : ids.Pairwise (· < ·)) (hlt : ∀ i, i ∈ ids → i < m) :
    ∀ a b, numOf ids m a = numOf ids m b → a = b := by
  intro a b h
  unfold numOf at h
  by_cases ha : a < ids.length <;> by_cases hb : b < ids.length <;> simp only [ha, hb, ↓reduceDIte] at h
  · rcases Nat.lt_trichotomy a b with hab | hab | hab
    · have := List.pairwise_iff_getElem.mp hs a b ha hb hab; omega
    · exact hab
    · have := List.pairwise_iff_getElem.mp hs b a hb ha hab; omega
  · have := hlt _ (List.getElem_mem ha); omega
  · have := hlt _ (List.getElem_mem hb); omega
  · omega

/-- **the `StagesBuilder` inside any `DispatcherBuilder` is a `stepI` fold**: whatever sequence of
`add` (accepted or rejected) and `add_barrier` calls produced it, there are a list of resolved
registrations whose dependencies point to earlier ones, an injective numbering and a tagging
that reproduce it. -/
theorem builder_is_stepI (bops : List BOp) :
    ∃ (ops : List SOp) (σ : Nat → Nat) (τ : Nat → SysTag), (∀ a b, σ a = σ b → a = b) ∧ DepsBelow 0 ops ∧
      (bops.foldl BOp.step {}).stagesBuilder = (ops.foldl (SOp.stepI σ τ) ({}, 0)).1 := by
  obtain ⟨ids, tags, ops, h⟩ := glue_run bops
  refine ⟨ops, numOf ids (bops.foldl BOp.step {}).currentId, tagOf tags, numOf_inj ids _ h.sorted h.lt, h.deps, ?_⟩
  apply h.eq
  · intro k hk; simp [numOf, hk]
  · intro k _; rfl

theorem C19_rel (σ : Nat → Nat) (hσ : ∀ a b, σ a = σ b → a = b) (τ : Nat → SysTag) (ops : List SOp) :
    let b := (runOps ops).1
    let b' := (ops.foldl (SOp.stepI σ τ) ({}, 0)).1
    b'.ids = mapIds σ b.ids ∧ b'.stages = mapT τ b.stages ∧ b'.reads = b.reads ∧ b'.writes = b.writes ∧
      b'.runningTime = b.runningTime ∧ b'.barrier = b.barrier := by
  intro b b'
  have h1 := runOpsI_rel σ hσ τ ops
  have h2 := (runOpsT_rel τ ops).1
  refine ⟨?_, ?_, ?_, ?_, ?_, ?_⟩
  · rw [h1.ids]; show mapIds σ (runOpsT τ ops).1.ids = _; rw [h2.ids]
  · rw [h1.stages]; exact h2.stages
  · rw [h1.reads]; exact h2.reads
  · rw [h1.writes]; exact h2.writes
  · rw [h1.runningTime]; exact h2.runningTime
  · rw [h1.barrier]; exact h2.barrier

/-- the declarations / dependency lists a list of operations carries -/
def declOf : List SOp → Nat → Decl
  | [], _ => ⟨[], [], 0⟩
  | .barrier :: ops, n => declOf ops n
  | .insert _ d :: ops, 0 => d
  | .insert _ _ :: ops, n + 1 => declOf ops n

def depOf : List SOp → Nat → List Nat
  | [], _ => []
  | .barrier :: ops, n => depOf ops n
  | .insert dep _ :: ops, 0 => dep
  | .insert _ _ :: ops, n + 1 => depOf ops n

theorem consistent_of_depsBelow (ops : List SOp) (n : Nat) (h : DepsBelow n ops) :
    Consistent (fun k => declOf ops (k - n)) (fun k => depOf ops (k - n)) n ops := by
  induction ops generalizing n with
  | nil => trivial
  | cons op ops ih =>
    cases op with
    | barrier => exact ih n h
    | insert dep d =>
      have h' : (∀ k, k ∈ dep → k < n) ∧ DepsBelow (n + 1) ops := h
      refine ⟨by simp [declOf], by simp [depOf], h'.1, ?_⟩
      have := ih (n + 1) h'.2
      -- the functions agree on every index ≥ n + 1, which is all `Consistent … (n+1) ops` looks at
      suffices ∀ (D D' : Nat → Decl) (Dep Dep' : Nat → List Nat) (m : Nat) (l : List SOp),
          (∀ k, m ≤ k → D k = D' k) → (∀ k, m ≤ k → Dep k = Dep' k) → Consistent D Dep m l → Consistent D' Dep' m l by
        apply this _ _ _ _ (n + 1) ops _ _ (ih (n + 1) h'.2)
        · intro k hk
          have : k - n = (k - (n + 1)) + 1 := by omega
          simp [this, declOf]
        · intro k hk
          have : k - n = (k - (n + 1)) + 1 := by omega
          simp [this, depOf]
      intro D D' Dep Dep' m l hD hDep hc
      induction l generalizing m with
      | nil => trivial
      | cons o l ihl =>
        cases o with
        | barrier => exact ihl m hD hDep hc
        | insert dep2 d2 =>
          obtain ⟨c1, c2, c3, c4⟩ := hc
          exact ⟨by rw [← hD m (Nat.le_refl m)]; exact c1, by rw [← hDep m (Nat.le_refl m)]; exact c2, c3,
            ihl (m + 1) (fun k hk => hD k (by omega)) (fun k hk => hDep k (by omega)) c4⟩

/-- **every `DispatcherBuilder` is a `Scenario` up to numbering and tagging.** -/
theorem builder_is_scenario (bops : List BOp) :
    ∃ (sc : Scenario) (σ : Nat → Nat) (τ : Nat → SysTag), (∀ a b, σ a = σ b → a = b) ∧
      let b := (bops.foldl BOp.step {}).stagesBuilder
      b.ids = mapIds σ sc.final.b.ids ∧ b.stages = mapT τ sc.final.b.stages ∧
      b.reads = sc.final.b.reads ∧ b.writes = sc.final.b.writes ∧
      b.runningTime = sc.final.b.runningTime ∧ b.barrier = sc.final.b.barrier := by
  obtain ⟨ops, σ, τ, hσ, hdeps, heq⟩ := builder_is_stepI bops
  have hc := consistent_of_depsBelow ops 0 hdeps
  let sc : Scenario := { ops := ops, D := fun k => declOf ops (k - 0), Dep := fun k => depOf ops (k - 0),
                         consistent := hc, tl := [], tl_nodup := List.nodup_nil,
                         tl_fresh := by intro t ht; cases ht }
  refine ⟨sc, σ, τ, hσ, ?_⟩
  have hrel := C19_rel σ hσ τ ops
  have hb : (runOps ops).1 = sc.final.b := by
    show (ops.foldl SOp.step ({}, 0)).1 = (ops.foldl GState.step {}).b
    exact (congrArg Prod.fst (gstate_foldl ops {})).symm
  simp only []
  rw [heq, ← hb]
  exact hrel

end Shred
