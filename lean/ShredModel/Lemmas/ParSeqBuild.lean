import ShredModel.Lemmas.ParSeq
/-!
# The run-time assembly of a tree only yields checked trees

`PS.build` (the token machine the driver runs, mirroring how the harness calls the real
`Par::new/with`, `Seq::new/with`) can only return a tree all of whose `Par` nodes passed the
debug check, because every `Par` node it makes comes out of `parOf`.
-/
namespace Shred
namespace PS

def FramesOK (decl : Nat → Decl) (st : List Frame) : Prop :=
  ∀ f, f ∈ st → ∀ c, c ∈ f.kids → Checked decl c

theorem push_ok (decl : Nat → Decl) (v : PS) (st : List Frame) (hv : Checked decl v) (hst : FramesOK decl st) :
    ∃ st' d, push v st = .cont st' d ∧ FramesOK decl st' ∧ ∀ t, d = some t → Checked decl t := by
  cases st with
  | nil => exact ⟨[], some v, rfl, (by intro f hf; cases hf), by intro t ht; cases ht; exact hv⟩
  | cons f fs =>
    refine ⟨_, none, rfl, ?_, by intro t ht; cases ht⟩
    intro g hg c hc
    rcases List.mem_cons.mp hg with rfl | hg
    · simp at hc
      rcases hc with rfl | hc
      · exact hv
      · exact hst f (by simp) c hc
    · exact hst g (by simp [hg]) c hc

theorem stepTok_ok (decl : Nat → Decl) (tok : Tok) (pos : Nat) (st st' : List Frame) (d : Option PS)
    (hst : FramesOK decl st) (he : stepTok decl tok pos st = .cont st' d) :
    FramesOK decl st' ∧ ∀ t, d = some t → Checked decl t := by
  have frames_tail : ∀ f fs, st = f :: fs → FramesOK decl fs :=
    fun f fs h g hg => hst g (by simp [h, hg])
  cases tok with
  | openPar =>
    simp [stepTok] at he
    obtain ⟨rfl, rfl⟩ := he
    refine ⟨?_, by intro t ht; cases ht⟩
    intro g hg c hc
    rcases List.mem_cons.mp hg with rfl | hg
    · cases hc
    · exact hst g hg c hc
  | openSeq =>
    simp [stepTok] at he
    obtain ⟨rfl, rfl⟩ := he
    refine ⟨?_, by intro t ht; cases ht⟩
    intro g hg c hc
    rcases List.mem_cons.mp hg with rfl | hg
    · cases hc
    · exact hst g hg c hc
  | leaf s =>
    obtain ⟨s1, d1, h1, h2, h3⟩ := push_ok decl (.leaf s) st trivial hst
    simp [stepTok, h1] at he
    obtain ⟨rfl, rfl⟩ := he
    exact ⟨h2, h3⟩
  | close =>
    cases st with
    | nil => simp [stepTok] at he
    | cons f fs =>
      have hfs := frames_tail f fs rfl
      have hkids : ∀ c, c ∈ f.kids.reverse → Checked decl c :=
        fun c hc => hst f (by simp) c (by simpa using hc)
      simp only [stepTok] at he
      cases hk : f.kids.reverse with
      | nil => simp [hk] at he
      | cons c0 cs =>
        rw [hk] at hkids
        simp only [hk] at he
        by_cases hp : f.isPar = true
        · simp only [hp, if_true] at he
          cases hpo : parOf decl c0 cs with
          | error k => simp [hpo] at he
          | ok v =>
            simp only [hpo] at he
            have hv := checked_parOf decl c0 cs v (hkids c0 (by simp)) (fun c hc => hkids c (by simp [hc])) hpo
            obtain ⟨s1, d1, h1, h2, h3⟩ := push_ok decl v fs hv hfs
            rw [h1] at he
            cases he
            exact ⟨h2, h3⟩
        · simp only [hp] at he
          have hv := checked_seqOf decl c0 cs (hkids c0 (by simp)) (fun c hc => hkids c (by simp [hc]))
          obtain ⟨s1, d1, h1, h2, h3⟩ := push_ok decl _ fs hv hfs
          simp only [Bool.false_eq_true, if_false] at he
          rw [h1] at he
          cases he
          exact ⟨h2, h3⟩

theorem push_not_stop (v : PS) (st : List Frame) (r : BuildResult) : push v st ≠ .stop r := by
  cases st <;> simp [push]

/-- a stop is `malformed` or `panic`, never `built` -/
theorem stepTok_stop_not_built (decl : Nat → Decl) (tok : Tok) (pos : Nat) (st : List Frame) (t : PS) :
    stepTok decl tok pos st ≠ .stop (.built t) := by
  intro hs
  cases tok with
  | openPar => simp [stepTok] at hs
  | openSeq => simp [stepTok] at hs
  | leaf s => exact push_not_stop _ _ _ hs
  | close =>
    cases st with
    | nil => simp [stepTok] at hs
    | cons f fs =>
      simp only [stepTok] at hs
      cases hk : f.kids.reverse with
      | nil => simp [hk] at hs
      | cons c0 cs =>
        simp only [hk] at hs
        by_cases hp : f.isPar = true
        · simp only [hp, if_true] at hs
          cases hpo : parOf decl c0 cs with
          | error k => simp [hpo] at hs
          | ok v => simp only [hpo] at hs; exact push_not_stop _ _ _ hs
        · simp only [hp, Bool.false_eq_true, if_false] at hs
          exact push_not_stop _ _ _ hs

theorem buildGo_checked (decl : Nat → Decl) : ∀ (toks : List Tok) (pos : Nat) (st : List Frame) (d : Option PS) (t : PS),
    FramesOK decl st → (∀ t, d = some t → Checked decl t) →
    buildGo decl toks pos st d = .built t → Checked decl t := by
  intro toks
  induction toks with
  | nil =>
    intro pos st d t _ hd he
    cases st <;> cases d <;> simp [buildGo] at he
    subst he
    exact hd _ rfl
  | cons tok toks ih =>
    intro pos st d t hst hd he
    cases d with
    | some v => simp [buildGo] at he
    | none =>
      simp only [buildGo] at he
      cases hs : stepTok decl tok pos st with
      | stop r =>
        simp only [hs] at he
        subst he
        exact absurd hs (stepTok_stop_not_built decl tok pos st t)
      | cont st' d' =>
        simp only [hs] at he
        obtain ⟨h1, h2⟩ := stepTok_ok decl tok pos st st' d' hst hs
        exact ih (pos + 1) st' d' t h1 h2 he

/-- whatever `build` returns passed every debug check -/
theorem build_checked (decl : Nat → Decl) (toks : List Tok) (t : PS) (h : build decl toks = .built t) :
    Checked decl t :=
  buildGo_checked decl toks 0 [] none t (by intro f hf; cases hf) (by intro t ht; cases ht) h

end PS
end Shred
