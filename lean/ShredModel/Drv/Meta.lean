import ShredModel.Model.Meta
import ShredModel.Drv.Util
/-!
Line-protocol front end of the `MetaTable` model (engine `meta`, property C17).

```
meta new <casts>      fresh table, empty world, not armed; <casts> = comma list (or `-`) of the
                      types whose `CastFrom` is not the lawful one, each `<ty>:<k>:<vt>`:
                        k = m  the address is moved, the vtable attached is <vt>'s
                        k = s  the address is kept, the vtable attached is <vt>'s
                        k = w  lawful while not armed; while armed: address moved, vtable <vt>
                      (`<ty>` alone = `<ty>:m:<ty>`)                               -> ok
meta arm <0|1>        the switch the `w` casts look at (user-side state)           -> ok
meta trait <0|1>      the table is a `MetaTable<dyn Obj>` (0) / `MetaTable<dyn Sub>`, `Sub: Obj + Send + Sync`
                      (1); the code is generic in the trait object, the model does not distinguish -> ok
meta reg <ty>         table.register::<ty>()                                       -> ok
meta ins <ty>         world.insert(value of ty)   (no guard may be alive)          -> ok
meta rem <ty>         world.remove::<ty>()        (no guard may be alive)          -> some | none
meta fetch <ty>       world.try_fetch::<ty>(), guard kept    -> guard | none | panic borrowed
meta fetchmut <ty>    world.try_fetch_mut::<ty>(), guard kept
meta drop <k>         drop the (k mod n)-th live guard (acquisition order)         -> dropped <ty> | noop
meta get <ty>         table.get(&*world.try_fetch::<ty>()?)
                      -> absent | panic borrowed | none | some <vtable> <same|moved> | panic badcast
meta getmut <ty>      table.get_mut(&mut *world.try_fetch_mut::<ty>()?)   (same answers)
meta getloc <ty>      table.get(&value of ty that lives outside the world) -> none | some .. | panic badcast
meta iter | itermut   table.iter(&world) / table.iter_mut(&world), iterator kept   -> ok
meta next <k>         next() on the (k mod n)-th live iterator, item kept as a guard
                      (<same|moved>: relative to the resource whose cell the item borrows)
                      -> item <vtable> <same|moved> | none | panic borrowed | panic badcast | panic index | noop
meta collect <k>      next() until None or a panic, items kept
                      -> items <vtable,..|-> end | items <..> panic <kind> | noop
meta dropit <k>       drop the (k mod n)-th live iterator                          -> ok | noop
meta nth <k> <n>      Iterator::nth(n) on the (k mod n)-th live iterator, item kept as a guard
                      -> item <vtable> <same|moved> | none | panic .. | noop
meta hint <k>         size_hint() of that iterator against the number of items that follow
                      -> hint ok | hint bad | noop
meta run <k> <ad> <co> <own>   a consuming call on that iterator itself (own = 1: the iterator is gone
                      afterwards) or on `by_ref()` of it (own = 0), through the adapter
                      <ad> = plain | skip:<n> | stepby:<n> (n > 0) | take:<n>, with the consumer
                      <co> = collect | foreach | fold  (every item kept; a panic unwinds the partial
                                                       result of collect / fold, not what for_each pushed)
                                                       -> items <vtable,..|-> [moved ]end | items .. panic <kind>
                           | last                      -> item <vtable> <same|moved> | none | panic ..
                           | count                     -> count <n> | panic ..          (or noop)
meta zip <k> <m>      that iterator (consumed) zipped with a fresh iter (m = 0) / iter_mut (m = 1),
                      collected                      -> pairs <a:b,..|-> [moved ]end | pairs - panic .. | noop
meta end              drop every guard and iterator                                -> ok
meta probe            borrow flag of every present cell, by type: <ty>:<f|s|x> ..  (or `-`)
```
-/
namespace Shred.Drv.Meta
open Shred Shred.Meta Shred.Drv

/-- how the `CastFrom` implementation of one type misbehaves -/
inductive CastKind
  | moved      -- another address
  | same       -- the address it was given (but maybe another vtable)
  | switch     -- lawful unless armed, then another address
deriving Repr, DecidableEq

structure St where
  casts : List (Nat × CastKind × Nat) := []
  armed : Bool := false
  table : MetaTable := {}
  world : MWorld := MWorld.empty
  /-- types that were ever inserted (to enumerate the cells for `probe`) -/
  seen : List Nat := []
  /-- next fresh address; every `insert` boxes the value at a new address -/
  nextAddr : Nat := 4096
  /-- live guards in acquisition order: type of the cell -/
  guards : List Nat := []
  /-- live iterators in creation order -/
  iters : List MIter := []

/-- the `CastFrom` implementations of the harness: lawful for every type not listed -/
def castOf (casts : List (Nat × CastKind × Nat)) (armed : Bool) : CastFn := fun ty a =>
  match casts.find? (fun e => e.1 == ty) with
  | none => lawfulCast ty a
  | some (_, .moved, vt) => ⟨a + 8, vt⟩
  | some (_, .same, vt) => ⟨a, vt⟩
  | some (_, .switch, vt) => if armed then ⟨a + 8, vt⟩ else lawfulCast ty a

def parseCast (e : String) : Option (Nat × CastKind × Nat) :=
  match e.splitOn ":" with
  | [ty] => ty.toNat?.map fun t => (t, .moved, t)
  | [ty, k, vt] =>
    match ty.toNat?, vt.toNat? with
    | some t, some v =>
      if k == "m" then some (t, .moved, v) else if k == "s" then some (t, .same, v)
      else if k == "w" then some (t, .switch, v) else none
    | _, _ => none
  | _ => none

/-- the types of `tys[i..j)` that are present: the cells an iterator that moved from `i` to `j`
looked at and found -/
def foundBetween (t : MetaTable) (w : MWorld) (i j : Nat) : List Nat :=
  ((t.tys.drop i).take (j - i)).filter w.present

def parseAdapter (a : String) : Option MetaTable.Adapter :=
  match a.splitOn ":" with
  | ["plain"] => some .plain
  | ["skip", n] => n.toNat?.map .skip
  | ["take", n] => n.toNat?.map .take
  | ["stepby", n] =>
    match n.toNat? with
    | some (m + 1) => some (.stepBy m true)     -- `step_by(0)` panics in `core`: not a request
    | _ => none
  | _ => none

def showPanic : MPanic → String
  | .badCast => "panic badcast"
  | .borrowed => "panic borrowed"
  | .index => "panic index"

def same (p : TraitPtr) (addr : Nat) : String := if p.addr == addr then "same" else "moved"

def showGet (o : GetOut) (addr : Nat) : String :=
  match o with
  | .none => "none"
  | .some p => s!"some {p.vtable} {same p addr}"
  | .panic e => showPanic e

def showBorrow : Borrow → String
  | .free => "f"
  | .shared _ => "s"
  | .excl => "x"

def eraseIdx' (l : List α) (i : Nat) : List α := l.take i ++ l.drop (i + 1)

def sortNat (l : List Nat) : List Nat :=
  l.foldl (fun acc x => acc.takeWhile (· < x) ++ x :: acc.dropWhile (· < x)) []

def step (st : St) (ws : List String) : St × String :=
  match ws with
  | ["new", casts] =>
    let es := (parseList casts).map parseCast
    if es.all Option.isSome then ({ casts := es.filterMap id }, "ok") else (st, "bad-op")
  | ["trait", k] =>
    -- which trait object the table is for: the model has one table, the behaviour is the same
    if k == "0" || k == "1" then (st, "ok") else (st, "bad-op")
  | ["arm", b] =>
    if b == "1" then ({ st with armed := true }, "ok")
    else if b == "0" then ({ st with armed := false }, "ok") else (st, "bad-op")
  | ["reg", ty] =>
    match ty.toNat? with
    | some ty =>
      if st.guards.isEmpty && st.iters.isEmpty then ({ st with table := st.table.register ty }, "ok")
      else (st, "bad-op")
    | none => (st, "bad-op")
  | ["ins", ty] =>
    match ty.toNat? with
    | some ty =>
      if st.guards.isEmpty && st.iters.isEmpty then
        ({ st with world := st.world.insert ty st.nextAddr, nextAddr := st.nextAddr + 4096,
                   seen := if st.seen.contains ty then st.seen else st.seen ++ [ty] }, "ok")
      else (st, "bad-op")
    | none => (st, "bad-op")
  | ["rem", ty] =>
    match ty.toNat? with
    | some ty =>
      if st.guards.isEmpty && st.iters.isEmpty then
        ({ st with world := st.world.remove ty }, if st.world.present ty then "some" else "none")
      else (st, "bad-op")
    | none => (st, "bad-op")
  | [op, ty] =>
    match ty.toNat? with
    | none => (st, "bad-op")
    | some n =>
      let cast := castOf st.casts st.armed
      if op == "fetch" || op == "fetchmut" then
        match st.world.acquire n (op == "fetchmut") with
        | (_, .none) => (st, "none")
        | (_, .panic) => (st, "panic borrowed")
        | (w', .guard) => ({ st with world := w', guards := st.guards ++ [n] }, "guard")
      else if op == "get" || op == "getmut" then
        let excl := op == "getmut"
        -- fetch, convert, drop the fetch again
        match st.world.cell n, st.world.acquire n excl with
        | some c, (w', .guard) =>
          let o := if excl then st.table.getMut cast ⟨n, c.addr⟩ else st.table.get cast ⟨n, c.addr⟩
          ({ st with world := w'.release n }, showGet o c.addr)
        | _, (_, .panic) => (st, "panic borrowed")
        | _, _ => (st, "absent")
      else if op == "getloc" then
        (st, showGet (st.table.get cast ⟨n, 64⟩) 64)
      else if op == "drop" then
        if st.guards.isEmpty then (st, "noop") else
        let k := n % st.guards.length
        match st.guards[k]? with
        | some ty => ({ st with world := st.world.release ty, guards := eraseIdx' st.guards k }, s!"dropped {ty}")
        | none => (st, "bad-op")
      else if op == "dropit" then
        if st.iters.isEmpty then (st, "noop") else
        ({ st with iters := eraseIdx' st.iters (n % st.iters.length) }, "ok")
      else if op == "hint" then
        if st.iters.isEmpty then (st, "noop") else
        match st.iters[n % st.iters.length]? with
        | none => (st, "bad-op")
        | some it =>
          let r := ((st.table.tys.drop it.index).filter st.world.present).length
          let (lo, hi) := st.table.sizeHint it
          let ok := lo ≤ r && (match hi with | none => true | some h => r ≤ h)
          (st, if ok then "hint ok" else "hint bad")
      else if op == "next" then
        if st.iters.isEmpty then (st, "noop") else
        let k := n % st.iters.length
        match st.iters[k]? with
        | none => (st, "bad-op")
        | some it =>
          let (w', it', o) := st.table.next cast st.world it
          let st' := { st with world := w', iters := st.iters.set k it' }
          match o with
          | .none => (st', "none")
          | .panic e => (st', showPanic e)
          | .item p =>
            -- the cell that got borrowed is the one of the type just before the new position
            match st.table.tys[it'.index - 1]? with
            | some ty => ({ st' with guards := st'.guards ++ [ty] }, s!"item {p.vtable} {same p (addrOf st.world ty)}")
            | none => (st, "bad-op")
      else if op == "collect" then
        if st.iters.isEmpty then (st, "noop") else
        let k := n % st.iters.length
        match st.iters[k]? with
        | none => (st, "bad-op")
        | some it =>
          let r := st.table.collect cast st.world it
          let tags := r.items.map (·.vtable)
          -- the cells the items borrow: the present types the iterator passed, except the one
          -- it panicked at
          let found := foundBetween st.table st.world it.index r.index
          let cells := if r.panic.isSome then found.dropLast else found
          if cells.length != r.items.length then (st, "bad-op") else
          let moved := (r.items.zip cells).any fun (p, ty) => p.addr != addrOf st.world ty
          let txt := (if tags.isEmpty then "-" else ",".intercalate (tags.map toString)) ++ (if moved then " moved" else "")
          ({ st with world := r.world, iters := st.iters.set k { it with index := r.index },
                     guards := st.guards ++ cells },
           match r.panic with
           | none => s!"items {txt} end"
           | some e => s!"items {txt} {showPanic e}")
      else (st, "bad-op")
  | ["nth", ks, ns] =>
    match ks.toNat?, ns.toNat? with
    | some kk, some n =>
      if st.iters.isEmpty then (st, "noop") else
      let k := kk % st.iters.length
      match st.iters[k]? with
      | none => (st, "bad-op")
      | some it =>
        let cast := castOf st.casts st.armed
        let (w', it', o) := st.table.nth cast st.world it n
        let st' := { st with world := w', iters := st.iters.set k it' }
        match o with
        | .none => (st', "none")
        | .panic e => (st', showPanic e)
        | .item p =>
          let ty := st.table.slotTy it'.index
          ({ st' with guards := st'.guards ++ [ty] }, s!"item {p.vtable} {same p (addrOf st.world ty)}")
    | _, _ => (st, "bad-op")
  | ["run", ks, ads, cos, owns] =>
    match ks.toNat?, parseAdapter ads, owns.toNat? with
    | some kk, some ad, some own =>
      if own > 1 then (st, "bad-op") else
      if !(cos == "collect" || cos == "foreach" || cos == "fold" || cos == "last" || cos == "count") then (st, "bad-op") else
      if st.iters.isEmpty then (st, "noop") else
      let k := kk % st.iters.length
      match st.iters[k]? with
      | none => (st, "bad-op")
      | some it =>
        let cast := castOf st.casts st.armed
        let fuel := st.table.tys.length + 1
        let r0 : MetaTable.Ran :=
          if cos == "last" then MetaTable.lastVia cast st.table it.excl fuel ad st.world it.index none 0
          else if cos == "count" then MetaTable.countVia cast st.table it.excl fuel ad st.world it.index 0
          else MetaTable.collectVia cast st.table it.excl fuel ad st.world it.index []
        -- a panic unwinds through `collect` / `fold` / `last`: the partial result is dropped
        let r := if r0.panic.isSome && cos != "foreach" then r0.unwind else r0
        let iters' := if own == 1 then eraseIdx' st.iters k else st.iters.set k { it with index := r.index }
        let st' := { st with world := r.world, iters := iters', guards := st.guards ++ r.kept.map (·.1) }
        let moved := r.kept.any fun (ty, p) => p.addr != addrOf st.world ty
        if cos == "count" then
          (st', match r.panic with
                | none => s!"count {r.seen}"
                | some e => showPanic e)
        else if cos == "last" then
          (st', match r.panic, r.kept with
                | some e, _ => showPanic e
                | none, [(ty, p)] => s!"item {p.vtable} {same p (addrOf st.world ty)}"
                | none, _ => "none")
        else
          let tags := r.kept.map (·.2.vtable)
          let txt := (if tags.isEmpty then "-" else ",".intercalate (tags.map toString)) ++ (if moved then " moved" else "")
          (st', match r.panic with
                | none => s!"items {txt} end"
                | some e => s!"items {txt} {showPanic e}")
    | _, _, _ => (st, "bad-op")
  | ["zip", ks, ms] =>
    match ks.toNat?, ms.toNat? with
    | some kk, some m =>
      if m > 1 then (st, "bad-op") else
      if st.iters.isEmpty then (st, "noop") else
      let k := kk % st.iters.length
      match st.iters[k]? with
      | none => (st, "bad-op")
      | some it =>
        let cast := castOf st.casts st.armed
        let r := MetaTable.zipN cast st.table it.excl (m == 1) (st.table.tys.length + 1) st.world it.index 0 []
        -- a panic unwinds through `collect`: the pairs so far are dropped
        let flat := r.pairs.foldr (fun (a, b) acc => a :: b :: acc) []
        let w' := if r.panic.isSome then flat.foldl (fun w e => w.release e.1) r.world else r.world
        let keptTys := if r.panic.isSome then [] else flat.map (·.1)
        let moved := !r.panic.isSome && flat.any fun (ty, p) => p.addr != addrOf st.world ty
        let st' := { st with world := w', iters := eraseIdx' st.iters k, guards := st.guards ++ keptTys }
        let txt := if r.panic.isSome || r.pairs.isEmpty then "-"
          else ",".intercalate (r.pairs.map fun (a, b) => s!"{a.2.vtable}:{b.2.vtable}")
        (st', match r.panic with
              | none => s!"pairs {txt}{if moved then " moved" else ""} end"
              | some e => s!"pairs - {showPanic e}")
    | _, _ => (st, "bad-op")
  | ["iter"] => ({ st with iters := st.iters ++ [st.table.iter false] }, "ok")
  | ["itermut"] => ({ st with iters := st.iters ++ [st.table.iter true] }, "ok")
  | ["end"] =>
    ({ st with world := st.guards.foldl (fun w ty => w.release ty) st.world, guards := [], iters := [] }, "ok")
  | ["probe"] =>
    let cells := (sortNat st.seen).filterMap fun ty =>
      (st.world.cell ty).map fun c => s!"{ty}:{showBorrow c.borrow}"
    (st, if cells.isEmpty then "-" else " ".intercalate cells)
  | _ => (st, "bad-op")

end Shred.Drv.Meta
