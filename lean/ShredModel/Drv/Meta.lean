import ShredModel.Model.Meta
import ShredModel.Drv.Util
/-!
Line-protocol front end of the `MetaTable` model (engine `meta`, property C17).

```
meta new <bad>        fresh table, empty world; <bad> = comma list of types whose `CastFrom`
                      moves the address (or `-`)                                  -> ok
meta reg <ty>         table.register::<ty>()                                       -> ok
meta ins <ty>         world.insert(value of ty)   (no guard may be alive)          -> ok
meta rem <ty>         world.remove::<ty>()        (no guard may be alive)          -> some | none
meta fetch <ty>       world.try_fetch::<ty>(), guard kept    -> guard | none | panic borrowed
meta fetchmut <ty>    world.try_fetch_mut::<ty>(), guard kept
meta drop <k>         drop the (k mod n)-th live guard (acquisition order)         -> dropped <ty> | noop
meta get <ty>         table.get(&*world.try_fetch::<ty>()?)
                      -> absent | panic borrowed | none | some <vtable> <same|moved> | panic badcast
meta getmut <ty>      table.get_mut(&mut *world.try_fetch_mut::<ty>()?)   (same answers)
meta getloc <ty>      table.get(&value of ty that lives outside the world) -> none | some .. | panic badcast
meta iter | itermut   table.iter(&world) / table.iter_mut(&world), iterator kept   -> ok
meta next <k>         next() on the (k mod n)-th live iterator, item kept as a guard
                      -> item <vtable> <same|moved> | none | panic borrowed | panic badcast | panic index | noop
meta collect <k>      next() until None or a panic, items kept
                      -> items <vtable,..|-> end | items <..> panic <kind> | noop
meta dropit <k>       drop the (k mod n)-th live iterator                          -> ok | noop
meta end              drop every guard and iterator                                -> ok
meta probe            borrow flag of every present cell, by type: <ty>:<f|s|x> ..  (or `-`)
```
-/
namespace Shred.Drv.Meta
open Shred Shred.Meta Shred.Drv

structure St where
  bad : List Nat := []
  table : MetaTable := {}
  world : MWorld := MWorld.empty
  /-- types that were ever inserted (to enumerate the cells for `probe`) -/
  seen : List Nat := []
  /-- next fresh address; every `insert` boxes the value at a new address -/
  nextAddr : Nat := 4096
  /-- live guards in acquisition order: type of the cell -/
  guards : List Nat := []
  /-- live iterators in creation order -/
  iters : List MIter := []

/-- the `CastFrom` implementations of the harness: the listed types move the pointer -/
def castOf (bad : List Nat) : CastFn := fun ty a => if bad.contains ty then a + 8 else a

def showPanic : MPanic → String
  | .badCast => "panic badcast"
  | .borrowed => "panic borrowed"
  | .index => "panic index"

def same (p : TraitPtr) (addr : Nat) : String := if p.addr == addr then "same" else "moved"

def showGet (o : GetOut) (addr : Nat) : String :=
  match o with
  | .none => "none"
  | .some p => s!"some {p.vtable} {same p addr}"
  | .panic e => showPanic e

def showBorrow : Borrow → String
  | .free => "f"
  | .shared _ => "s"
  | .excl => "x"

def eraseIdx' (l : List α) (i : Nat) : List α := l.take i ++ l.drop (i + 1)

def sortNat (l : List Nat) : List Nat :=
  l.foldl (fun acc x => acc.takeWhile (· < x) ++ x :: acc.dropWhile (· < x)) []

def step (st : St) (ws : List String) : St × String :=
  match ws with
  | ["new", bad] => ({ bad := (parseList bad).filterMap String.toNat? }, "ok")
  | ["reg", ty] =>
    match ty.toNat? with
    | some ty =>
      if st.guards.isEmpty && st.iters.isEmpty then ({ st with table := st.table.register ty }, "ok")
      else (st, "bad-op")
    | none => (st, "bad-op")
  | ["ins", ty] =>
    match ty.toNat? with
    | some ty =>
      if st.guards.isEmpty && st.iters.isEmpty then
        ({ st with world := st.world.insert ty st.nextAddr, nextAddr := st.nextAddr + 4096,
                   seen := if st.seen.contains ty then st.seen else st.seen ++ [ty] }, "ok")
      else (st, "bad-op")
    | none => (st, "bad-op")
  | ["rem", ty] =>
    match ty.toNat? with
    | some ty =>
      if st.guards.isEmpty && st.iters.isEmpty then
        ({ st with world := st.world.remove ty }, if st.world.present ty then "some" else "none")
      else (st, "bad-op")
    | none => (st, "bad-op")
  | [op, ty] =>
    match ty.toNat? with
    | none => (st, "bad-op")
    | some n =>
      let cast := castOf st.bad
      if op == "fetch" || op == "fetchmut" then
        match st.world.acquire n (op == "fetchmut") with
        | (_, .none) => (st, "none")
        | (_, .panic) => (st, "panic borrowed")
        | (w', .guard) => ({ st with world := w', guards := st.guards ++ [n] }, "guard")
      else if op == "get" || op == "getmut" then
        let excl := op == "getmut"
        -- fetch, convert, drop the fetch again
        match st.world.cell n, st.world.acquire n excl with
        | some c, (w', .guard) =>
          let o := if excl then st.table.getMut cast ⟨n, c.addr⟩ else st.table.get cast ⟨n, c.addr⟩
          ({ st with world := w'.release n }, showGet o c.addr)
        | _, (_, .panic) => (st, "panic borrowed")
        | _, _ => (st, "absent")
      else if op == "getloc" then
        (st, showGet (st.table.get cast ⟨n, 64⟩) 64)
      else if op == "drop" then
        if st.guards.isEmpty then (st, "noop") else
        let k := n % st.guards.length
        match st.guards[k]? with
        | some ty => ({ st with world := st.world.release ty, guards := eraseIdx' st.guards k }, s!"dropped {ty}")
        | none => (st, "bad-op")
      else if op == "dropit" then
        if st.iters.isEmpty then (st, "noop") else
        ({ st with iters := eraseIdx' st.iters (n % st.iters.length) }, "ok")
      else if op == "next" then
        if st.iters.isEmpty then (st, "noop") else
        let k := n % st.iters.length
        match st.iters[k]? with
        | none => (st, "bad-op")
        | some it =>
          let (w', it', o) := st.table.next cast st.world it
          let st' := { st with world := w', iters := st.iters.set k it' }
          match o with
          | .none => (st', "none")
          | .panic e => (st', showPanic e)
          | .item p => ({ st' with guards := st'.guards ++ [p.vtable] }, s!"item {p.vtable} {same p (addrOf st.world p.vtable)}")
      else if op == "collect" then
        if st.iters.isEmpty then (st, "noop") else
        let k := n % st.iters.length
        match st.iters[k]? with
        | none => (st, "bad-op")
        | some it =>
          let r := st.table.collect cast st.world it
          let tags := r.items.map (·.vtable)
          let moved := r.items.any fun p => p.addr != addrOf st.world p.vtable
          let txt := (if tags.isEmpty then "-" else ",".intercalate (tags.map toString)) ++ (if moved then " moved" else "")
          ({ st with world := r.world, iters := st.iters.set k { it with index := r.index },
                     guards := st.guards ++ tags },
           match r.panic with
           | none => s!"items {txt} end"
           | some e => s!"items {txt} {showPanic e}")
      else (st, "bad-op")
  | ["iter"] => ({ st with iters := st.iters ++ [st.table.iter false] }, "ok")
  | ["itermut"] => ({ st with iters := st.iters ++ [st.table.iter true] }, "ok")
  | ["end"] =>
    ({ st with world := st.guards.foldl (fun w ty => w.release ty) st.world, guards := [], iters := [] }, "ok")
  | ["probe"] =>
    let cells := (sortNat st.seen).filterMap fun ty =>
      (st.world.cell ty).map fun c => s!"{ty}:{showBorrow c.borrow}"
    (st, if cells.isEmpty then "-" else " ".intercalate cells)
  | _ => (st, "bad-op")

end Shred.Drv.Meta
