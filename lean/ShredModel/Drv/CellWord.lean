import ShredModel.Model.CellWord
/-!
Front end of the borrow-word model (`Model/CellWord.lean`), `H = 2^63` (`HIGH_BIT` on this target).

* `cellw new` → `ok` (word 0)
* `cellw <try-shared|try-excl|drop-shared|drop-excl>` → `<granted> <word after the step>`
-/
namespace Shred.Drv.CellWord
open Shred Shred.CellWord

structure St where
  word : Nat := 0

def highBit : Nat := 2 ^ 63

def parseOp : String → Option COp
  | "try-shared" => some .tryShared
  | "try-excl" => some .tryExcl
  | "drop-shared" => some .dropShared
  | "drop-excl" => some .dropExcl
  | _ => none

def step (st : St) (ws : List String) : St × String :=
  match ws with
  | ["new"] => ({}, "ok")
  | [op] =>
    match parseOp op with
    | some o =>
      let (w, g) := wordStep highBit st.word o
      ({ word := w }, s!"{g} {w}")
    | none => (st, "bad-op")
  | _ => (st, "bad-op")

end Shred.Drv.CellWord
