import ShredModel.Model.ParSeq
import ShredModel.Drv.Util
/-!
Line-protocol front end of the Par/Seq tree model (engine `parseq`, property C16).

```
ps new                          -> ok
ps leaf <tag> <r> <w>           -> ok                       (declared reads / writes, `ty.dyn,..` or `-`)
ps tree <tok> ..                -> built <leaf tags> | panic <node> <k> | malformed
                                   tokens: `P[` `S[` `]` <tag>; node = position of the `P[`
ps with-check <tok> .. | <tok> .. -> pass | fail | panic-inside | malformed
                                   (the check of `Par::new(h).with(s)` for the two trees)
ps reads | ps writes            -> what the root reports, in order
ps setup                        -> leaf tags in the order their `setup` hook runs
ps begin                        -> ok                       (start validating one dispatch of the tree)
ps ev <F|D> <tag>               -> ok | reject ..
ps end                          -> accept | reject incomplete
```
-/
namespace Shred.Drv.ParSeq
open Shred Shred.Drv

structure St where
  decls : List (Nat × Decl) := []
  tree : Option PS := none
  tr : Option (RTask Nat) := none

def declOf (ds : List (Nat × Decl)) (n : Nat) : Decl :=
  match ds.find? (fun p => p.1 == n) with
  | some p => p.2
  | none => ⟨[], [], 0⟩

def parseTok (s : String) : Option PS.Tok :=
  if s == "P[" then some .openPar
  else if s == "S[" then some .openSeq
  else if s == "]" then some .close
  else s.toNat?.map .leaf

def parseToks (ws : List String) : Option (List PS.Tok) := ws.mapM parseTok

def showRes (l : List ResId) : String :=
  if l.isEmpty then "-" else ",".intercalate (l.map toString)

def splitBar (ws : List String) : List String × List String :=
  (ws.takeWhile (· != "|"), (ws.dropWhile (· != "|")).drop 1)

def step (st : St) (ws : List String) : St × String :=
  match ws with
  | ["new"] => ({}, "ok")
  | ["leaf", tag, r, w] =>
    match tag.toNat? with
    | some tag => ({ st with decls := (tag, ⟨parseRes r, parseRes w, 0⟩) :: st.decls }, "ok")
    | none => (st, "bad-op")
  | "tree" :: toks =>
    match parseToks toks with
    | none => (st, "bad-op")
    | some toks =>
      match PS.build (declOf st.decls) toks with
      | .built t => ({ st with tree := some t, tr := none }, s!"built {showNatList t.leaves}")
      | .panic node k => ({ st with tree := none, tr := none }, s!"panic {node} {k}")
      | .malformed => ({ st with tree := none, tr := none }, "malformed")
  | "with-check" :: rest =>
    let (a, b) := splitBar rest
    match parseToks a, parseToks b with
    | some ta, some tb =>
      match PS.build (declOf st.decls) ta, PS.build (declOf st.decls) tb with
      | .built h, .built s => (st, if PS.withCheck (declOf st.decls) h s then "pass" else "fail")
      | .malformed, _ => (st, "malformed")
      | _, .malformed => (st, "malformed")
      | _, _ => (st, "panic-inside")
    | _, _ => (st, "bad-op")
  | ["reads"] =>
    match st.tree with
    | some t => (st, showRes (PS.reads (declOf st.decls) t))
    | none => (st, "bad-op")
  | ["writes"] =>
    match st.tree with
    | some t => (st, showRes (PS.writes (declOf st.decls) t))
    | none => (st, "bad-op")
  | ["setup"] =>
    match st.tree with
    | some t => (st, showNatList (PS.setupOrder t))
    | none => (st, "bad-op")
  | ["begin"] =>
    match st.tree with
    | some t => ({ st with tr := some (PS.toTask t).toR }, "ok")
    | none => (st, "bad-op")
  | ["ev", k, tag] =>
    match st.tr, tag.toNat? with
    | some t, some tag =>
      if k == "F" || k == "D" then
        let e : Ev Nat := if k == "F" then .F tag else .D tag
        match t.deriv e with
        | some t' => ({ st with tr := some t' }, "ok")
        | none => (st, s!"reject {k} {tag}")
      else (st, "bad-op")
    | _, _ => (st, "bad-op")
  | ["end"] =>
    match st.tr with
    | some t => ({ st with tr := none }, if t.nullable then "accept" else "reject incomplete")
    | none => (st, "bad-op")
  | _ => (st, "bad-op")

end Shred.Drv.ParSeq
