import ShredModel.Model.ParSeq
import ShredModel.Drv.Util
/-!
Line-protocol front end of the Par/Seq tree model (engine `parseq`, property C16).

```
ps new                          -> ok
ps leaf <tag> <r> <w>           -> ok                       (declared reads / writes, `ty.dyn,..` or `-`;
                                                             same as flavour `n`, creating nothing)
ps leaf <tag> <r> <w> <n|d|s> <creates>
                                -> ok                       (`n`: `System::accessor` overridden with <r> <w>, accessor
                                                             type without default; `d`: the same, `try_new()` gives an
                                                             accessor that declares nothing; `s`: static system data —
                                                             nothing overridden, `try_new()` gives <r> <w>)
ps tree <tok> ..                -> built <leaf tags> | panic <node> <k> | malformed
                                   tokens: `P[` `S[` `]` <tag>; node = position of the `P[`
ps with-check <tok> .. | <tok> .. -> pass | fail | panic-inside | malformed
                                   (the check of `Par::new(h).with(s)` for the two trees)
ps reads | ps writes            -> what the root reports, in order
ps rw <tok> ..                  -> <reads> <writes> of that tree built on its own | panic-inside | malformed
ps setup                        -> leaf tags in the order their `setup` hook runs
ps setup <i|t> <present>        -> <leaf tags> <created>    (one more setup call on the built `ParSeq`, through
                                                             `ParSeq::setup` / `RunNow::setup`, on a world holding <present>)
ps begin                        -> ok                       (start validating one dispatch of the tree)
ps ev <F|D> <tag>               -> ok | reject ..
ps end                          -> accept | reject incomplete
```
-/
namespace Shred.Drv.ParSeq
open Shred Shred.Drv

structure St where
  specs : List (Nat × PS.LeafSpec) := []
  /-- the `ParSeq` of the case, once built; every later `setup` goes through `Disp.setup` -/
  disp : Option PS.Disp := none
  tr : Option (RTask Nat) := none

def St.tree (st : St) : Option PS := st.disp.map (·.run)

/-- a leaf the harness never announced is a system with `()` data: static, declares nothing -/
def specOf (ds : List (Nat × PS.LeafSpec)) (n : Nat) : PS.LeafSpec :=
  match ds.find? (fun p => p.1 == n) with
  | some p => p.2
  | none => ⟨some ⟨[], [], 0⟩, none, []⟩

def declOf (ds : List (Nat × PS.LeafSpec)) : Nat → Decl := PS.declOf (specOf ds)
def createsOf (ds : List (Nat × PS.LeafSpec)) (n : Nat) : List ResId := (specOf ds n).creates

def parseTok (s : String) : Option PS.Tok :=
  if s == "P[" then some .openPar
  else if s == "S[" then some .openSeq
  else if s == "]" then some .close
  else s.toNat?.map .leaf

def parseToks (ws : List String) : Option (List PS.Tok) := ws.mapM parseTok

def showRes (l : List ResId) : String :=
  if l.isEmpty then "-" else ",".intercalate (l.map toString)

def splitBar (ws : List String) : List String × List String :=
  (ws.takeWhile (· != "|"), (ws.dropWhile (· != "|")).drop 1)

def step (st : St) (ws : List String) : St × String :=
  match ws with
  | ["new"] => ({}, "ok")
  | ["leaf", tag, r, w] =>
    match tag.toNat? with
    | some tag => ({ st with specs := (tag, ⟨none, some ⟨parseRes r, parseRes w, 0⟩, []⟩) :: st.specs }, "ok")
    | none => (st, "bad-op")
  | ["leaf", tag, r, w, flav, cr] =>
    match tag.toNat? with
    | some tag =>
      let d : Decl := ⟨parseRes r, parseRes w, 0⟩
      let spec? : Option PS.LeafSpec :=
        if flav == "n" then some ⟨none, some d, parseRes cr⟩
        else if flav == "d" then some ⟨some ⟨[], [], 0⟩, some d, parseRes cr⟩
        else if flav == "s" then some ⟨some d, none, parseRes cr⟩
        else none
      match spec? with
      | some sp => ({ st with specs := (tag, sp) :: st.specs }, "ok")
      | none => (st, "bad-op")
    | none => (st, "bad-op")
  | "tree" :: toks =>
    match parseToks toks with
    | none => (st, "bad-op")
    | some toks =>
      match PS.build (declOf st.specs) toks with
      | .built t => ({ st with disp := some ⟨t⟩, tr := none }, s!"built {showNatList t.leaves}")
      | .panic node k => ({ st with disp := none, tr := none }, s!"panic {node} {k}")
      | .malformed => ({ st with disp := none, tr := none }, "malformed")
  | "with-check" :: rest =>
    let (a, b) := splitBar rest
    match parseToks a, parseToks b with
    | some ta, some tb =>
      match PS.build (declOf st.specs) ta, PS.build (declOf st.specs) tb with
      | .built h, .built s => (st, if PS.withCheck (declOf st.specs) h s then "pass" else "fail")
      | .malformed, _ => (st, "malformed")
      | _, .malformed => (st, "malformed")
      | _, _ => (st, "panic-inside")
    | _, _ => (st, "bad-op")
  | ["reads"] =>
    match st.tree with
    | some t => (st, showRes (PS.reads (declOf st.specs) t))
    | none => (st, "bad-op")
  | ["writes"] =>
    match st.tree with
    | some t => (st, showRes (PS.writes (declOf st.specs) t))
    | none => (st, "bad-op")
  | "rw" :: toks =>
    match parseToks toks with
    | none => (st, "bad-op")
    | some toks =>
      match PS.build (declOf st.specs) toks with
      | .built t => (st, s!"{showRes (PS.reads (declOf st.specs) t)} {showRes (PS.writes (declOf st.specs) t)}")
      | .panic _ _ => (st, "panic-inside")
      | .malformed => (st, "malformed")
  | ["setup"] =>
    match st.tree with
    | some t => (st, showNatList (PS.setupOrder t))
    | none => (st, "bad-op")
  | ["setup", via, present] =>
    match st.disp with
    | some d =>
      let via? : Option PS.Via :=
        if via == "i" then some .inherent else if via == "t" then some .runNow else none
      match via? with
      | some v =>
        let w := parseRes present
        let r := d.setup v (createsOf st.specs) w
        -- the dispatcher after the call is the state the next call sees
        ({ st with disp := some r.1 }, s!"{showNatList r.2.1} {showRes (r.2.2.filter (fun x => !(w.contains x)))}")
      | none => (st, "bad-op")
    | none => (st, "bad-op")
  | ["begin"] =>
    match st.tree with
    | some t => ({ st with tr := some (PS.toTask t).toR }, "ok")
    | none => (st, "bad-op")
  | ["ev", k, tag] =>
    match st.tr, tag.toNat? with
    | some t, some tag =>
      if k == "F" || k == "D" then
        let e : Ev Nat := if k == "F" then .F tag else .D tag
        match t.deriv e with
        | some t' => ({ st with tr := some t' }, "ok")
        | none => (st, s!"reject {k} {tag}")
      else (st, "bad-op")
    | _, _ => (st, "bad-op")
  | ["end"] =>
    match st.tr with
    | some t => ({ st with tr := none }, if t.nullable then "accept" else "reject incomplete")
    | none => (st, "bad-op")
  | _ => (st, "bad-op")

end Shred.Drv.ParSeq
