import ShredModel.Model.SysData
import ShredModel.Drv.Util
/-!
Line-protocol front end of the system-data model (engine `sysdata`, property C06).

```
sd eval present=<t,..|-> pre=<t:s|t:x,..|-> <descriptor words>
   -> r=<t,..> w=<t,..> fetch=<ok|absent:t|borrowed:t> guards=<t:s|t:x,..> alive=<flags> after=<flags>
      setup=<t:v,..> post=<ok|absent:t|borrowed:t>
```
descriptor (prefix notation): `r<h>:<t>` `w<h>:<t>` (`Read`/`Write`), `or<h>:<t>` `ow<h>:<t>`
(`Option<..>`), `u` (`()`), `p` (`PhantomData`), `T <n> m1 .. mn` (tuple), `S <n> m1 .. mn`
(derived struct); `<h>` = `d` (`DefaultProvider`) | `e` (`PanicHandler`) | `c<k>` (harness handler k).
A present resource `t` starts with value `100 + t`. `pre` = guards held by somebody else while
the fetch runs. `alive` = flags of the cells after `fetch` returned or unwound, `after` = after the
value was dropped; `setup` = world contents after `T::setup` on the initial world; `post` = outcome
of a fetch (no foreign guards) after that setup. Flags: only non-free cells, `t:S<readers>` / `t:X`.
-/
namespace Shred.Drv.SysData
open Shred Shred.Drv Shred.SysData

structure St where
  evals : Nat := 0

/-- resources the harness uses: `Res<0>` .. `Res<NT-1>` -/
def NT : Nat := 32

def parseHandler (cs : List Char) : Option Handler :=
  match cs with
  | ['d'] => some .dflt
  | ['e'] => some .expect
  | 'c' :: ds => (String.ofList ds).toNat?.map Handler.custom
  | _ => none

def parseLeafBody (s : String) : Option (Handler × Tag) :=
  match s.splitOn ":" with
  | [h, t] => match parseHandler h.toList, t.toNat? with
    | some h, some t => some (h, t)
    | _, _ => none
  | _ => none

def parseLeaf (w : String) : Option SD :=
  match w.toList with
  | 'o' :: 'r' :: rest => (parseLeafBody (String.ofList rest)).map fun (h, t) => .opt false h t
  | 'o' :: 'w' :: rest => (parseLeafBody (String.ofList rest)).map fun (h, t) => .opt true h t
  | 'r' :: rest => (parseLeafBody (String.ofList rest)).map fun (h, t) => .leaf false h t
  | 'w' :: rest => (parseLeafBody (String.ofList rest)).map fun (h, t) => .leaf true h t
  | ['u'] => some .unit
  | ['p'] => some .phantom
  | _ => none

mutual
/-- one descriptor from the front of the word list; `fuel` bounds the nesting -/
def parseSD : Nat → List String → Option (SD × List String)
  | 0, _ => none
  | _, [] => none
  | fuel + 1, w :: ws =>
    if w == "T" || w == "S" then
      match ws with
      | n :: ws' =>
        match n.toNat? with
        | some n =>
          match parseN fuel n ws' with
          | some (ms, rest) => some (if w == "T" then .tuple ms else .struct ms, rest)
          | none => none
        | none => none
      | [] => none
    else (parseLeaf w).map fun sd => (sd, ws)
def parseN : Nat → Nat → List String → Option (List SD × List String)
  | _, 0, ws => some ([], ws)
  | 0, _ + 1, _ => none
  | fuel + 1, n + 1, ws =>
    match parseSD fuel ws with
    | some (m, rest) =>
      match parseN fuel n rest with
      | some (ms, rest') => some (m :: ms, rest')
      | none => none
    | none => none
end

def parseTags (s : String) : Option (List Tag) :=
  (parseList s).mapM fun x => x.toNat?

def parsePre (s : String) : Option (List Guard) :=
  (parseList s).mapM fun x =>
    match x.splitOn ":" with
    | [t, "s"] => t.toNat?.map fun t => ⟨t, false⟩
    | [t, "x"] => t.toNat?.map fun t => ⟨t, true⟩
    | _ => none

def showTags (l : List Tag) : String := if l.isEmpty then "-" else ",".intercalate (l.map toString)

def showGuards (l : List Guard) : String :=
  if l.isEmpty then "-" else ",".intercalate (l.map fun g => s!"{g.tag}:{if g.excl then "x" else "s"}")

def showFlags (fl : Flags) : String :=
  let xs := (List.range NT).filterMap fun t =>
    match fl t with
    | .free => none
    | .shared n => some s!"{t}:S{n + 1}"
    | .excl => some s!"{t}:X"
  if xs.isEmpty then "-" else ",".intercalate xs

def showVals (w : Vals) : String :=
  let xs := (List.range NT).filterMap fun t => (w t).map fun v => s!"{t}:{v}"
  if xs.isEmpty then "-" else ",".intercalate xs

def showOutcome : Except Panic (List Guard) → String
  | .ok _ => "ok"
  | .error (.absent t) => s!"absent:{t}"
  | .error (.borrowed t) => s!"borrowed:{t}"

/-- the foreign guards are taken one after the other on free cells -/
def applyPre (present : Tag → Bool) : List Guard → Flags → Option Flags
  | [], fl => some fl
  | g :: gs, fl =>
    if present g.tag then
      match tryBorrow (fl g.tag) g.excl with
      | some b => applyPre present gs (upd fl g.tag b)
      | none => none
    else none

def eval (present : List Tag) (pre : List Guard) (sd : SD) : String :=
  let p : Tag → Bool := fun t => present.contains t
  match applyPre p pre (fun _ => .free) with
  | none => "bad-op pre"
  | some fl0 =>
    let (fl1, r) := fetch p sd fl0
    let gs := match r with | .ok gs => gs | .error _ => []
    let fl2 := match r with | .ok gs => drop fl1 gs | .error _ => fl1
    let w0 : Vals := fun t => if p t then some (100 + t) else none
    let w1 := setup stdEnv stdDefault sd w0
    let (_, r2) := fetch (fun t => (w1 t).isSome) sd (fun _ => .free)
    s!"r={showTags (reads sd)} w={showTags (writes sd)} fetch={showOutcome r} guards={showGuards gs} alive={showFlags fl1} after={showFlags fl2} setup={showVals w1} post={showOutcome r2}"

def kv (key : String) (w : String) : Option String :=
  if w.startsWith (key ++ "=") then some ((w.drop (key.length + 1)).toString) else none

def step (st : St) (ws : List String) : St × String :=
  match ws with
  | "eval" :: pr :: pre :: desc =>
    match (kv "present" pr).bind parseTags, (kv "pre" pre).bind parsePre, parseSD (desc.length + 1) desc with
    | some present, some pre, some (sd, []) => ({ st with evals := st.evals + 1 }, eval present pre sd)
    | _, _, _ => (st, "bad-op")
  | _ => (st, "bad-op")

end Shred.Drv.SysData
