import ShredModel.Model.Async
import ShredModel.Model.Plan
/-!
Line-protocol front end of the asynchronous-dispatcher model (engine `asyncd`).

```
asyncd begin <stages> <tl>          e.g. [[[0],[1,2]],[[3]]] [4,5]     -> ok
asyncd call <op>                                                      -> ok | reject ..
asyncd ret <op> <0|1>                                                 -> ok | reject ..
asyncd ev <F|D|P> <tag> <c|w> <dispatch-no>                           -> ok | reject ..
asyncd unwound <op>                                                   -> ok | reject ..
asyncd hook <tag> <c|w>                                               -> ok | reject ..
asyncd quiet                                                          -> ok | reject ..
asyncd gone                                                           -> ok | reject ..
asyncd end                                                            -> accept | reject ..
```
`op` ∈ dispatch wait wait_without_tl running world world_mut setup res mut_res. `quiet`: the
harness, between two operations and without calling the dispatcher, has seen the completion
signal of the systems themselves (every `run` that was entered has returned). `ev P`: the
system was unwound by a panic; `unwound op`: the call ended by unwinding; `hook`: `setup` called
the system's setup hook; `gone`: the harness has seen the pool's panic handler run. The stages are the
*model's* layout for the registration sequence (the harness obtains it with `layout`); the job
task is `stagesTask` of it (any number of stages). Every request is one `Async.feed` step of the
acceptor whose soundness is `Async.acceptsLog_sound`. The thread class `c` is the thread that drives
the dispatcher in whatever calling context the harness runs the case (an ordinary thread, a worker
of the dispatcher's own pool, a worker of another pool); the model does not depend on the context,
so it is not part of the protocol.
-/
namespace Shred.Drv.Async
open Shred Shred.Async

structure St where
  plan : APlan := ⟨.nil, []⟩
  ctl : Option Ctl := none

structure PS where
  depth : Nat := 0
  num : Option Nat := none
  out : List (List (List Nat)) := []

def modifyLast {α} (l : List α) (f : α → α) : List α :=
  match l.reverse with
  | [] => []
  | x :: r => (f x :: r).reverse

def PS.flush (st : PS) : PS :=
  match st.num with
  | none => st
  | some k =>
    if st.depth == 3 then { st with num := none, out := modifyLast st.out fun stg => modifyLast stg (· ++ [k]) }
    else { st with num := none }

def PS.feed (st : PS) (c : Char) : PS :=
  if c == '[' then
    let d := st.depth + 1
    if d == 2 then { st with depth := d, out := st.out ++ [[]] }
    else if d == 3 then { st with depth := d, out := modifyLast st.out (· ++ [[]]) }
    else { st with depth := d }
  else if c == ']' then
    let st := st.flush
    { st with depth := st.depth - 1 }
  else if c == ',' then st.flush
  else if c.isDigit then { st with num := some ((st.num.getD 0) * 10 + (c.toNat - '0'.toNat)) }
  else st

/-- "[[[0],[1,2]],[[3]]]" -/
def parseNested (s : String) : List (List (List Nat)) := (s.toList.foldl PS.feed {}).out

/-- "[4,5]" -/
def parseFlat (s : String) : List Nat :=
  ((String.ofList (s.toList.filter fun c => c != '[' && c != ']')).splitOn ",").filterMap String.toNat?

def parseOp : String → Option AOp
  | "dispatch" => some .dispatch
  | "wait" => some .wait
  | "wait_without_tl" => some .waitWithoutTl
  | "running" => some .running
  | "world" => some .world
  | "world_mut" => some .worldMut
  | "setup" => some .setup
  | "res" => some .res
  | "mut_res" => some .mutRes
  | _ => none

def showCtl (c : Ctl) : String :=
  let d := match c.data with | .inner => "inner" | .rx => "rx"
  let j := match c.job with
    | .idle => "idle" | .running r => if r.nullable then "running(done)" else "running" | .sent => "sent"
    | .failed _ ps g => s!"failed(panicked={ps},sender-dropped={g})"
  let k := match c.caller with
    | .ready => "ready" | .called _ => "called" | .holding _ => "holding" | .spawned => "spawned"
    | .inTl _ => "in-tl" | .polled v => s!"polled({v})" | .inSetup rest => s!"in-setup(hooks-left={rest})"
    | .tlFailed => "tl-panicked"
  s!"data={d} job={j} caller={k} dispatches={c.nDisp}"

def feedEv (st : St) (o : AEv) (what : String) : St × String :=
  match st.ctl with
  | none => (st, "bad-op")
  | some c =>
    match feed st.plan c o with
    | some c' => ({ st with ctl := some c' }, "ok")
    | none => (st, s!"reject {what} [{showCtl c}]")

def step (st : St) (ws : List String) : St × String :=
  match ws with
  | ["begin", stages, tl] =>
    ({ plan := ⟨stagesTask (parseNested stages), parseFlat tl⟩, ctl := some {} }, "ok")
  | ["call", op] =>
    match parseOp op with
    | some op' => feedEv st (.call op') s!"call {op}"
    | none => (st, "bad-op")
  | ["ret", op, v] =>
    match parseOp op, v with
    | some op', "0" => feedEv st (.ret op' false) s!"ret {op} 0"
    | some op', "1" => feedEv st (.ret op' true) s!"ret {op} 1"
    | _, _ => (st, "bad-op")
  | ["ev", k, tag, th, d] =>
    match tag.toNat?, d.toNat? with
    | some tag, some d =>
      let e? : Option (Ev Nat) := if k == "F" then some (.F tag) else if k == "D" then some (.D tag) else none
      let th? : Option Th := if th == "c" then some .caller else if th == "w" then some .worker else none
      match e?, th? with
      | some e, some t =>
        feedEv st (if st.plan.tl.contains tag then .tl t e else .sys t d e) s!"ev {k} {tag} {th} {d}"
      | some _, none => (st, s!"reject ev {k} {tag} {th} {d} [thread is neither the caller nor a pool worker]")
      | none, some t =>
        if k == "P" then
          feedEv st (if st.plan.tl.contains tag then .tlP t tag else .sysP t d tag) s!"ev {k} {tag} {th} {d}"
        else (st, "bad-op")
      | _, _ => (st, "bad-op")
    | _, _ => (st, "bad-op")
  | ["unwound", op] =>
    match parseOp op with
    | some op' => feedEv st (.unwound op') s!"unwound {op}"
    | none => (st, "bad-op")
  | ["hook", tag, th] =>
    match tag.toNat? with
    | some tag =>
      if th == "c" then feedEv st (.hook .caller tag) s!"hook {tag} {th}"
      else if th == "w" then feedEv st (.hook .worker tag) s!"hook {tag} {th}"
      else (st, s!"reject hook {tag} {th} [thread is neither the caller nor a pool worker]")
    | none => (st, "bad-op")
  | ["quiet"] => feedEv st .quiet "quiet"
  | ["gone"] => feedEv st .gone "gone"
  | ["end"] =>
    match st.ctl with
    | some c => ({ st with ctl := none }, if c.final then "accept" else s!"reject incomplete [{showCtl c}]")
    | none => (st, "bad-op")
  | _ => (st, "bad-op")

end Shred.Drv.Async
