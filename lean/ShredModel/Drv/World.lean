import ShredModel.Model.World
import ShredModel.Drv.Util
/-!
Line-protocol front end of the `World` model (engine `world`, properties C08 and C09).

```
new                                   -> ok
insert <ty> <tok>                     -> unit
insert-by-id <tyArg> <ty.dyn> <tok>   -> unit | panic wrongType
remove <ty> | remove-by-id <tyArg> <ty.dyn>      -> value <tok> | none | panic wrongType
entry <ty> <tok> | entry-with <ty> <tok>         -> seen <tok>        (guard looked at and dropped)
has <ty> | has-raw <ty.dyn>                      -> bool true|false
get-mut <ty> | get-mut-raw <ty.dyn>              -> seen <tok> | none
fetch|fetch-mut|try-fetch|try-fetch-mut <ty>     -> guard <h> <tok> | none | panic <kind>
try-fetch-by-id|try-fetch-mut-by-id <tyArg> <ty.dyn>
clone <h>                             -> guard <h'> <tok> | none
drop <h>                              -> unit
system-data <items>                   -> data <h:tok|->,.. | panic <kind>
setup <items> <toks>                  -> unit
exec <items> <toks>                   -> data .. | panic <kind>
meta-table <ty,..>                    -> ok        (registration order of the meta table)
iter <id> <0|1>                       -> ok        (new iterator, 1 = iter_mut)
iter-next <id>                        -> guard .. | none | panic <kind>
scope <ok|panic> <take> ..            -> scoped <tok|-,..> <ok|explicit|panic:<kind>>   (closure under catch_unwind; `-` = no take)
   takes: fetch:<ty> fetch-mut:<ty> try-fetch:<ty> try-fetch-mut:<ty> by-id:<tyArg>:<ty.dyn>
          by-id-mut:<tyArg>:<ty.dyn> data:<items> iter:<0|1> clone:@<i> (i-th guard of the closure) clone:<h>
insert-fused <tyArg> <ty.dyn> <tok>   -> unit | unwound drop | panic wrongType   (the replaced value's Drop panics)
entry-held <ty> <tok> <0|1>           -> unwound closure   (caller panics holding the guard; 1 = or_insert)
entry-fused <ty> <tok>                -> unwound drop | seen <tok>     (or_insert(v), v's Drop panics)
entry-with-panic <ty>                 -> unwound closure | seen <tok>  (or_insert_with(|| panic!()))
exec-panic <items> <toks>             -> unwound closure | panic <kind>
drop-returned <tok>                   -> unit
drop-world-panic <tok> <before>       -> leaked <toks> | bad-order     (world dropped, Drop of <tok> panics)
probe                                 -> cells=.. guards=.. counts=<created>,<returned>,<dropped>
ghost                                 -> created=.. returned=.. dropped=..
drop-world                            -> unit
```
items: comma separated `r<ty>` `w<ty>` (`Read`/`Write` with the default handler), `re<ty>` `we<ty>`
(`ReadExpect`/`WriteExpect`), `or<ty>` `ow<ty>` (`Option<Read>`/`Option<Write>`); `-` = empty.
-/
namespace Shred.Drv.World
open Shred Shred.Drv

structure St where
  w : Shred.World := {}
  tys : List Nat := []
  iters : List (Nat × Bool × Nat) := []     -- id, exclusive, index

def showPanic : WPanic → String
  | .wrongType => "wrongType"
  | .absent => "absent"
  | .alreadyBorrowed => "alreadyBorrowed"
  | .alreadyMutablyBorrowed => "alreadyMutablyBorrowed"
  | .alreadyImmutablyBorrowed => "alreadyImmutablyBorrowed"

def showList (l : List String) : String := if l.isEmpty then "-" else ",".intercalate l

def showFault : Fault → String
  | .closure => "closure"
  | .drop => "drop"

def showEnd : ScopeEnd → String
  | .returned => "ok"
  | .panicked => "explicit"
  | .refused p => "panic:" ++ showPanic p

def showOut : Shred.Out → String
  | .unit => "unit"
  | .bool b => s!"bool {b}"
  | .guard h t => s!"guard {h} {t}"
  | .none => "none"
  | .value t => s!"value {t}"
  | .seen t => s!"seen {t}"
  | .data fs => "data " ++ showList (fs.map fun f => match f with | some (h, t) => s!"{h}:{t}" | none => "-")
  | .panic p => "panic " ++ showPanic p
  | .scopeDone seen fin =>
    "scoped " ++ showList (seen.map fun x => match x with | some t => toString t | none => "-") ++ " " ++ showEnd fin
  | .unwound f => "unwound " ++ showFault f

def parseKey (s : String) : Option ResId :=
  match s.splitOn "." with
  | [a, b] => match a.toNat?, b.toNat? with
    | some ty, some dyn => some ⟨ty, dyn⟩
    | _, _ => none
  | _ => none

def parseItem (s : String) : Option Shred.World.SdItem :=
  let mk (rest : String) (write opt dflt : Bool) : Option Shred.World.SdItem :=
    rest.toNat?.map fun ty => ⟨ty, write, opt, dflt⟩
  if s.startsWith "re" then mk (s.drop 2).toString false false false
  else if s.startsWith "we" then mk (s.drop 2).toString true false false
  else if s.startsWith "or" then mk (s.drop 2).toString false true true
  else if s.startsWith "ow" then mk (s.drop 2).toString true true true
  else if s.startsWith "r" then mk (s.drop 1).toString false false true
  else if s.startsWith "w" then mk (s.drop 1).toString true false true
  else none

def parseItems (s : String) : Option (List Shred.World.SdItem) := (parseList s).mapM parseItem
def parseNats (s : String) : Option (List Nat) := (parseList s).mapM String.toNat?

def parseTake (s : String) : Option Shred.World.Take :=
  match s.splitOn ":" with
  | ["fetch", ty] => ty.toNat?.map fun ty => .fetch ty false true
  | ["fetch-mut", ty] => ty.toNat?.map fun ty => .fetch ty true true
  | ["try-fetch", ty] => ty.toNat?.map fun ty => .fetch ty false false
  | ["try-fetch-mut", ty] => ty.toNat?.map fun ty => .fetch ty true false
  | ["by-id", a, k] => do pure (.byId (← a.toNat?) (← parseKey k) false)
  | ["by-id-mut", a, k] => do pure (.byId (← a.toNat?) (← parseKey k) true)
  | ["data", items] => (parseItems items).map .data
  | ["iter", "0"] => some (.iter false)
  | ["iter", "1"] => some (.iter true)
  | ["clone", h] =>
    if h.startsWith "@" then (h.drop 1).toString.toNat?.map .cloneLocal else h.toNat?.map .cloneOuter
  | _ => none

def parseTakes (ws : List String) : Option (List Shred.World.Take) :=
  if ws == ["-"] then some [] else ws.mapM parseTake

def showBorrow : Borrow → String
  | .free => "F"
  | .shared n => s!"S{n}"
  | .excl => "X"

def showProbe (w : Shred.World) : String :=
  "cells=" ++ showList (w.cells.map fun p => s!"{p.1}:{p.2.ty}:{p.2.token}:{showBorrow p.2.borrow}") ++
  " guards=" ++ showList (w.guards.map fun p => s!"{p.1}:{p.2.key}:{if p.2.excl then "X" else "S"}") ++
  s!" counts={w.created.length},{w.returned.length},{w.dropped.length}"

def showGhost (w : Shred.World) : String :=
  "created=" ++ showList (w.created.map toString) ++ " returned=" ++ showList (w.returned.map toString) ++
  " dropped=" ++ showList (w.dropped.map toString)

def run (st : St) (op : Option Shred.World.Op) : St × String :=
  match op with
  | some op => let r := st.w.step op; ({ st with w := r.1 }, showOut r.2)
  | none => (st, "bad-op")

def step (st : St) (ws : List String) : St × String :=
  match ws with
  | ["new"] => ({}, "ok")
  | ["insert", ty, tok] => run st (do pure (.insert (← ty.toNat?) (← tok.toNat?)))
  | ["insert-by-id", a, k, tok] => run st (do pure (.insertById (← a.toNat?) (← parseKey k) (← tok.toNat?)))
  | ["remove", ty] => run st (do pure (.remove (← ty.toNat?)))
  | ["remove-by-id", a, k] => run st (do pure (.removeById (← a.toNat?) (← parseKey k)))
  | ["entry", ty, tok] => run st (do pure (.entry (← ty.toNat?) (← tok.toNat?) true))
  | ["entry-with", ty, tok] => run st (do pure (.entry (← ty.toNat?) (← tok.toNat?) false))
  | ["has", ty] => run st (do pure (.hasValue (← ty.toNat?)))
  | ["has-raw", k] => run st (do pure (.hasValueRaw (← parseKey k)))
  | ["get-mut", ty] => run st (do pure (.getMut (← ty.toNat?)))
  | ["get-mut-raw", k] => run st (do pure (.getMutRaw (← parseKey k)))
  | ["fetch", ty] => run st (do pure (.fetch (← ty.toNat?)))
  | ["fetch-mut", ty] => run st (do pure (.fetchMut (← ty.toNat?)))
  | ["try-fetch", ty] => run st (do pure (.tryFetch (← ty.toNat?)))
  | ["try-fetch-mut", ty] => run st (do pure (.tryFetchMut (← ty.toNat?)))
  | ["try-fetch-by-id", a, k] => run st (do pure (.tryFetchById (← a.toNat?) (← parseKey k)))
  | ["try-fetch-mut-by-id", a, k] => run st (do pure (.tryFetchMutById (← a.toNat?) (← parseKey k)))
  | ["clone", h] => run st (do pure (.clone (← h.toNat?)))
  | ["drop", h] => run st (do pure (.drop (← h.toNat?)))
  | ["system-data", items] => run st (do pure (.systemData (← parseItems items)))
  | ["setup", items, toks] => run st (do pure (.setup (← parseItems items) (← parseNats toks)))
  | ["exec", items, toks] => run st (do pure (.exec (← parseItems items) (← parseNats toks)))
  | ["meta-table", tys] =>
    match parseNats tys with
    | some tys => ({ st with tys := tys }, "ok")
    | none => (st, "bad-op")
  | ["iter", id, x] =>
    match id.toNat?, x.toNat? with
    | some id, some x => ({ st with iters := (id, x == 1, 0) :: st.iters.filter (·.1 != id) }, "ok")
    | _, _ => (st, "bad-op")
  | ["iter-next", id] =>
    match id.toNat? with
    | some id =>
      match st.iters.find? (·.1 == id) with
      | some (_, x, idx) =>
        let r := st.w.step (.metaNext st.tys idx x)
        let idx' := (st.w.metaNext st.tys idx x).2.2
        ({ st with w := r.1, iters := (id, x, idx') :: st.iters.filter (·.1 != id) }, showOut r.2)
      | none => (st, "bad-op")
    | none => (st, "bad-op")
  | "scope" :: e :: takes =>
    match e, parseTakes takes with
    | "ok", some ts => run st (some (.scope st.tys ts false))
    | "panic", some ts => run st (some (.scope st.tys ts true))
    | _, _ => (st, "bad-op")
  | ["insert-fused", a, k, tok] => run st (do pure (.insertFused (← a.toNat?) (← parseKey k) (← tok.toNat?)))
  | ["entry-held", ty, tok, "0"] => run st (do pure (.entryFault (← ty.toNat?) (← tok.toNat?) (.guardHeld false)))
  | ["entry-held", ty, tok, "1"] => run st (do pure (.entryFault (← ty.toNat?) (← tok.toNat?) (.guardHeld true)))
  | ["entry-fused", ty, tok] => run st (do pure (.entryFault (← ty.toNat?) (← tok.toNat?) .valueDrop))
  | ["entry-with-panic", ty] => run st (do pure (.entryFault (← ty.toNat?) 0 .closure))
  | ["exec-panic", items, toks] => run st (do pure (.execFault (← parseItems items) (← parseNats toks)))
  | ["drop-returned", tok] =>
    match tok.toNat? with
    | some t => if t ∈ st.w.returned then ({ st with w := st.w.dropReturned t }, "unit") else (st, "bad-op")
    | none => (st, "bad-op")
  | ["drop-world-panic", tok, before] =>
    match tok.toNat?, parseNats before with
    | some t, some b =>
      match st.w.dropWorldPanic t b with
      | some (w', leaked) => ({ st with w := w' }, "leaked " ++ showList (leaked.map toString))
      | none => (st, "bad-order")
    | _, _ => (st, "bad-op")
  | ["probe"] => (st, showProbe st.w)
  | ["ghost"] => (st, showGhost st.w)
  | ["drop-world"] => ({ st with w := st.w.dropWorld }, "unit")
  | _ => (st, "bad-op")

end Shred.Drv.World
