import ShredModel.Model.Pool
/-! Front end of the pool model: `pool <workers> <groups>` → `completes` | `deadlock`. -/
namespace Shred.Drv.Pool
open Shred

structure St where
  asked : Nat := 0

def step (st : St) (ws : List String) : St × String :=
  match ws with
  | [w, n] =>
    match w.toNat?, n.toNat? with
    | some w, some n => ({ asked := st.asked + 1 }, if poolCompletes w n then "completes" else "deadlock")
    | _, _ => (st, "bad-op")
  | _ => (st, "bad-op")

end Shred.Drv.Pool
