import ShredModel.Model.Pool
/-!
Front end of the pool model.

* `pool <workers> <groups>` → `completes` | `deadlock`
* `pool busy <workers> <busy> <groups>` → `completes` | `deadlock`
* `pool plan <dflt> <top widths> <tok>…` → one word per dispatcher, in build order:
  `top=<pool size>:<v…>` / `<batch tag>=<pool size>:<v…>` with one `c` (completes) or `d`
  (deadlock) per stage of that dispatcher.
* `pool aplan <script> <dflt> <top widths> <tok>…` → the same for `build_async` and a sequence of
  calls on the `AsyncDispatcher`: `<script>` has one letter per call — `d` dispatch, `w` wait,
  `n` wait_without_tl, `o` world, `r` running (job still going), `R` running (job had finished);
  the word of a dispatcher is `<key>=<pool size>:<v…>/<v…>/…`, one `/`-separated group of stage
  verdicts per `d` of the script, oldest first.
  Tokens, in call order: `p<k>` = `add_pool` (pool of `k` threads) on the builder being filled,
  `[` = a new builder for a batch, `]<tag>:<widths>` = `add_batch` of the innermost open builder
  (its plan has stages of these widths). Widths are `.`-separated, `-` for none.
-/
namespace Shred.Drv.Pool
open Shred

structure St where
  asked : Nat := 0

def parseWidths (s : String) : Option (List Nat) :=
  if s == "-" || s.isEmpty then some [] else (s.splitOn ".").mapM String.toNat?

inductive Tok where
  | pool (p : Nat)
  | open_
  | close (tag : Nat) (ws : List Nat)

def parseTok (s : String) : Option Tok :=
  match s.toList with
  | ['['] => some .open_
  | 'p' :: cs => (String.ofList cs).toNat?.map .pool
  | ']' :: cs =>
    match (String.ofList cs).splitOn ":" with
    | [t, ws] => match t.toNat?, parseWidths ws with
      | some t, some ws => some (.close t ws)
      | _, _ => none
    | _ => none
  | _ => none

/-- the calls are read back to front: `cur` is the part of the innermost open builder that
follows the position, `stack` the enclosing builders waiting for their batch to be completed -/
def assemble : List Tok → PB → List (Nat × List Nat × PB) → Option PB
  | [], cur, [] => some cur
  | [], _, _ :: _ => none
  | .pool p :: r, cur, st => assemble r (.pool p cur) st
  | .close t ws :: r, cur, st => assemble r .nil ((t, ws, cur) :: st)
  | .open_ :: r, cur, (t, ws, rest) :: st => assemble r (.batch t ws cur rest) st
  | .open_ :: _, _, [] => none

def parsePB (toks : List String) : Option PB :=
  match toks.mapM parseTok with
  | some ts => assemble ts.reverse .nil []
  | none => none

def showDisp (d : Disp) : String :=
  let k := match d.tag with | none => "top" | some t => toString t
  let v := String.ofList (d.widths.map fun n => if poolCompletes d.pool n then 'c' else 'd')
  s!"{k}={d.pool}:{v}"

def parseCall : Char → Option ACall
  | 'd' => some .dispatch
  | 'w' => some .wait
  | 'n' => some .waitWithoutTl
  | 'o' => some .world
  | 'r' => some (.running false)
  | 'R' => some (.running true)
  | _ => none

def parseScript (s : String) : Option (List ACall) := s.toList.mapM parseCall

def showDispAsync (calls : List ACall) (d : Disp) : String :=
  let k := match d.tag with | none => "top" | some t => toString t
  let vs := (d.completesAsync calls).map fun l => String.ofList (l.map fun b => if b then 'c' else 'd')
  let v := "/".intercalate vs
  s!"{k}={d.pool}:{v}"

def step (st : St) (ws : List String) : St × String :=
  match ws with
  | [w, n] =>
    match w.toNat?, n.toNat? with
    | some w, some n => ({ asked := st.asked + 1 }, if poolCompletes w n then "completes" else "deadlock")
    | _, _ => (st, "bad-op")
  | ["busy", w, b, n] =>
    match w.toNat?, b.toNat?, n.toNat? with
    | some w, some b, some n => ({ asked := st.asked + 1 }, if poolCompletesBusy w b n then "completes" else "deadlock")
    | _, _, _ => (st, "bad-op")
  | "plan" :: dflt :: top :: toks =>
    match dflt.toNat?, parseWidths top, parsePB toks with
    | some dflt, some top, some b =>
      ({ asked := st.asked + 1 }, " ".intercalate ((b.build dflt top).map showDisp))
    | _, _, _ => (st, "bad-op")
  | "aplan" :: script :: dflt :: top :: toks =>
    match parseScript script, dflt.toNat?, parseWidths top, parsePB toks with
    | some calls, some dflt, some top, some b =>
      ({ asked := st.asked + 1 }, " ".intercalate ((b.build dflt top).map (showDispAsync calls)))
    | _, _, _, _ => (st, "bad-op")
  | _ => (st, "bad-op")

end Shred.Drv.Pool
