import ShredModel.Model.Builder
/-! Helpers shared by the line-protocol front ends of the model (core Lean only). -/
namespace Shred.Drv
open Shred

def hexVal (c : Char) : Nat :=
  if '0' ≤ c ∧ c ≤ '9' then c.toNat - '0'.toNat
  else if 'a' ≤ c ∧ c ≤ 'f' then c.toNat - 'a'.toNat + 10
  else 0

/-- names travel hex-encoded (UTF-8 bytes) so that they may contain anything -/
def unhex (s : String) : String :=
  let rec go : List Char → List UInt8
    | a :: b :: rest => (UInt8.ofNat (hexVal a * 16 + hexVal b)) :: go rest
    | _ => []
  if s == "-" then "" else
  match String.fromUTF8? (ByteArray.mk (go s.toList).toArray) with
  | some r => r
  | none => ""

def hexDigit (n : Nat) : Char := if n < 10 then Char.ofNat (n + 48) else Char.ofNat (n - 10 + 97)

def hex (s : String) : String :=
  if s.isEmpty then "-" else
  String.ofList (s.toUTF8.toList.flatMap fun b => [hexDigit (b.toNat / 16), hexDigit (b.toNat % 16)])

def parseList (s : String) : List String := if s == "-" then [] else s.splitOn ","

def parseRes (s : String) : List ResId :=
  (parseList s).filterMap fun x =>
    match x.splitOn "." with
    | [a, b] => match a.toNat?, b.toNat? with
      | some ty, some dyn => some ⟨ty, dyn⟩
      | _, _ => none
    | _ => none

def showNested (t : List (List (List Nat))) : String :=
  "[" ++ ",".intercalate (t.map fun st => "[" ++ ",".intercalate (st.map fun g =>
    "[" ++ ",".intercalate (g.map toString) ++ "]") ++ "]") ++ "]"

def showPanic : BuildPanic → String
  | .unknownDep n => s!"panic unknownDep {hex n}"
  | .duplicateName n => s!"panic duplicateName {hex n}"


def showNatList (l : List Nat) : String := "[" ++ ",".intercalate (l.map toString) ++ "]"

end Shred.Drv
