import ShredModel.Model.Builder
import ShredModel.Model.Plan
import ShredModel.Drv.Util
/-! Line-protocol front end of the builder / task model (plan and trace engines). -/
namespace Shred.Drv.Plan
open Shred Shred.Drv

/-- driver state: stack of builders (head = innermost batch being filled) and the residual
task of the trace being validated, if any -/
structure St where
  bs : List DispatcherBuilder := [{}]
  tr : Option (RTask SysTag) := none

def step (st : St) (ws : List String) : St × String :=
  match ws with
  | ["new"] => ({}, "ok")
  | ["sys", tag, name, deps, r, w, t] =>
    match st.bs, tag.toNat?, t.toNat? with
    | b :: rest, some tag, some t =>
      let (b', p) := b.add tag (unhex name) ((parseList deps).map unhex) ⟨parseRes r, parseRes w, t⟩
      ({ st with bs := b' :: rest }, match p with | none => "placed" | some p => showPanic p)
    | _, _, _ => (st, "bad-op")
  | ["barrier"] =>
    match st.bs with
    | b :: rest => ({ st with bs := b.addBarrier :: rest }, "ok")
    | [] => (st, "bad-op")
  | ["tl", tag, _r, _w] =>
    match st.bs, tag.toNat? with
    | b :: rest, some tag => ({ st with bs := b.addThreadLocal tag :: rest }, "ok")
    | _, _ => (st, "bad-op")
  | ["batch-begin"] => ({ st with bs := ({} : DispatcherBuilder) :: st.bs }, "ok")
  | ["batch-end", tag, name, deps, _ctl, r, w, t, _n] =>
    match st.bs, tag.toNat?, t.toNat? with
    | inner :: b :: rest, some tag, some t =>
      let (b', p) := b.addBatch tag (unhex name) ((parseList deps).map unhex) ⟨parseRes r, parseRes w, t⟩ inner
      ({ st with bs := b' :: rest }, match p with | none => "placed" | some p => showPanic p)
    | _, _, _ => (st, "bad-op")
  | ["layout"] =>
    match st.bs with
    | b :: _ =>
      let sb := b.stagesBuilder
      (st, s!"ids={showNested sb.ids} sys={showNested sb.stages} tl=[{",".intercalate (b.threadLocal.map toString)}] barrier={sb.barrier} maxthreads={b.maxThreads}")
    | [] => (st, "bad-op")
  | ["debug"] =>
    match st.bs with
    | b :: _ => (st, hex b.writeParSeq)
    | [] => (st, "bad-op")
  | ["trace-begin", mode] =>
    match st.bs with
    | b :: _ =>
      let t := if mode == "seq" then dispatchSeqTask b.stagesBuilder.stages b.threadLocal
               else dispatchTask b.stagesBuilder.stages b.threadLocal
      ({ st with tr := some t.toR }, "ok")
    | [] => (st, "bad-op")
  | ["ev", k, tag] =>
    match st.tr, tag.toNat? with
    | some t, some tag =>
      let e : Ev SysTag := if k == "F" then .F tag else .D tag
      match t.deriv e with
      | some t' => ({ st with tr := some t' }, "ok")
      | none => (st, s!"reject {k} {tag}")
    | _, _ => (st, "bad-op")
  | ["trace-end"] =>
    match st.tr with
    | some t => ({ st with tr := none }, if t.nullable then "accept" else "reject incomplete")
    | none => (st, "bad-op")
  | _ => (st, "bad-op")


end Shred.Drv.Plan
