import ShredModel.Model.Builder
import ShredModel.Model.Plan
import ShredModel.Model.Nested
import ShredModel.Model.PTask
import ShredModel.Model.Effect
import ShredModel.Model.Lifecycle
import ShredModel.Drv.Util
/-! Line-protocol front end of the builder / task model (plan and trace engines). -/
namespace Shred.Drv.Plan
open Shred Shred.Drv

/-- one builder being filled, with what its batches contribute to the task semantics -/
structure Frame where
  b : DispatcherBuilder := {}
  bodies : List (SysTag × Body) := []
  threads : List (SysTag × Threads) := []
  lsetup : List (SysTag × Nat × List LEv) := []
  ldispose : List (SysTag × Nat × List LEv) := []

/-- driver state: stack of builders (head = innermost batch being filled), the declarations of
all plain systems by tag, and the residual task / expected threads of the trace being validated -/
structure St where
  frames : List Frame := [{}]
  decls : List (SysTag × Decl) := []
  tr : Option (PR Inst) := none
  /-- the same trace on the panic-free acceptor the theorems C01–C04 are stated for
  (`accepts_toR_iff`); `none` once a `P` event was seen -/
  rt : Option (RTask Inst) := none
  /-- the crate's `parallel` feature -/
  par : Bool := true
  thr : List (Inst × Char) := []

def parseInst (s : String) : Inst := (s.splitOn "/").filterMap String.toNat?

def showInst (i : Inst) : String := "/".intercalate (i.map toString)

def findDecl (ds : List (SysTag × Decl)) (t : SysTag) : Option Decl :=
  (ds.find? fun p => p.1 == t).map (·.2)

def lookupThread (l : List (Inst × Char)) (i : Inst) : Option Char :=
  (l.find? fun p => p.1 == i).map (·.2)

def showU64 (x : UInt64) : String := toString x.toNat

def effKeys : List ResId := (List.range 6).flatMap fun ty => (List.range 4).map fun dy => ⟨ty, dy⟩

/-- the same state with its tables evaluated on the finite key sets the harness uses (keeps the
compiled closures from nesting; identity on those keys) -/
def materialize (tags : List Nat) (st : EffState) : EffState :=
  let wl := effKeys.map fun k => (k, st.world k)
  let ll := tags.map fun t => (t, st.locals t)
  { world := fun k => match wl.find? (fun p => p.1 == k) with | some p => p.2 | none => initVal k,
    locals := fun t => match ll.find? (fun p => p.1 == t) with | some p => p.2 | none => (0, 0) }

/-- the effect of `k` dispatches in `dispatch_seq` order, from the initial harness world -/
def effects (f : Frame) (decls : List (SysTag × Decl)) (k : Nat) : EffState :=
  let t := nDispatchTask false f.b.stagesBuilder.stages f.b.threadLocal f.bodies []
  let insts := t.seqTrace.filterMap fun e => match e with | .F i => some i | .D _ => none
  let tags := decls.map (·.1)
  let once (st : EffState) : EffState :=
    insts.foldl (fun st i =>
      match i.getLast? with
      | some tag => match findDecl decls tag with
        | some d => materialize tags (runSys tag d st)
        | none => st
      | none => st) st
  (List.range k).foldl (fun st _ => once st) (materialize tags EffState.init)

def step (st : St) (ws : List String) : St × String :=
  match ws with
  | ["new"] => ({}, "ok")
  | ["new", "nopar"] => ({ par := false }, "ok")
  | ["sys", tag, name, deps, r, w, t] =>
    match st.frames, tag.toNat?, t.toNat? with
    | f :: rest, some _, some 0 =>
      -- running-time hint 0: the harness system's `running_time()` panics inside `add`
      let (b', p) := f.b.addCallbackPanics (unhex name) ((parseList deps).map unhex)
      ({ st with frames := { f with b := b' } :: rest },
        match p with | none => "callback-panic" | some p => showPanic p)
    | f :: rest, some tag, some t =>
      let d : Decl := ⟨parseRes r, parseRes w, t⟩
      let (b', p) := f.b.add tag (unhex name) ((parseList deps).map unhex) d
      ({ st with frames := { f with b := b' } :: rest, decls := (tag, d) :: st.decls },
        match p with | none => "placed" | some p => showPanic p)
    | _, _, _ => (st, "bad-op")
  | ["barrier"] =>
    match st.frames with
    | f :: rest => ({ st with frames := { f with b := f.b.addBarrier } :: rest }, "ok")
    | [] => (st, "bad-op")
  | ["tl", tag, r, w] =>
    match st.frames, tag.toNat? with
    | f :: rest, some tag =>
      ({ st with frames := { f with b := f.b.addThreadLocal tag } :: rest,
                 decls := (tag, ⟨parseRes r, parseRes w, 3⟩) :: st.decls }, "ok")
    | _, _ => (st, "bad-op")
  | ["batch-begin"] => ({ st with frames := ({} : Frame) :: st.frames }, "ok")
  | ["batch-end", tag, name, deps, ctl, r, w, t, n] =>
    match st.frames, tag.toNat?, t.toNat?, n.toNat? with
    | inner :: f :: rest, some tag, some t, some n =>
      let kind := ctl.toNat?.getD 0
      let (b', p) := f.b.addBatch tag (unhex name) ((parseList deps).map unhex) ⟨parseRes r, parseRes w, t⟩ inner.b
      let sb := inner.b.stagesBuilder
      let f' : Frame := match p with
        | none => { b := b',
                    bodies := (tag, batchBody st.par sb.stages inner.b.threadLocal inner.bodies n) :: f.bodies,
                    threads := (tag, batchThreads st.par sb.stages inner.b.threadLocal inner.threads n) :: f.threads,
                    lsetup := (tag, kind, setupOrder sb.stages inner.b.threadLocal inner.lsetup) :: f.lsetup,
                    ldispose := (tag, kind, disposeOrder sb.stages inner.b.threadLocal inner.ldispose) :: f.ldispose }
        | some _ => { f with b := b' }
      ({ st with frames := f' :: rest }, match p with | none => "placed" | some p => showPanic p)
    | _, _, _, _ => (st, "bad-op")
  | ["layout"] =>
    match st.frames with
    | f :: _ =>
      let sb := f.b.stagesBuilder
      (st, s!"ids={showNested sb.ids} sys={showNested sb.stages} tl=[{",".intercalate (f.b.threadLocal.map toString)}] barrier={sb.barrier} maxthreads={f.b.maxThreads}")
    | [] => (st, "bad-op")
  | ["query", name] =>
    match st.frames with
    | f :: _ =>
      let h := f.b.hasSystem (unhex name)
      (st, s!"has={h} contains={h}")
    | [] => (st, "bad-op")
  | ["debug"] =>
    match st.frames with
    | f :: _ => (st, hex f.b.writeParSeq)
    | [] => (st, "bad-op")
  | ["trace-begin", mode] =>
    match st.frames with
    | f :: _ =>
      let sb := f.b.stagesBuilder
      let par := st.par && (mode == "par" || mode == "paronly")
      let tl := if mode == "paronly" || mode == "seqonly" then [] else f.b.threadLocal
      let stages := if mode == "tlonly" then [] else sb.stages
      let t := nDispatchTask par stages tl f.bodies []
      ({ st with tr := some t.toPR, rt := some t.toR, thr := nThreads par stages tl f.threads 'c' [] }, "ok")
    | [] => (st, "bad-op")
  | ["ev", k, inst, th] =>
    match st.tr with
    | some t =>
      let i := parseInst inst
      let e : Option (PEv Inst) :=
        if k == "F" then some (.F i) else if k == "D" then some (.D i) else if k == "P" then some (.P i) else none
      match e with
      | none => (st, "bad-op")
      | some e =>
        -- the panic-free acceptor runs alongside until the first `P`
        let rt' : Option (Option (RTask Inst)) :=
          match st.rt with
          | none => some none
          | some r =>
            if k == "P" then some none
            else match r.deriv (if k == "F" then .F i else .D i) with
              | some r' => some (some r')
              | none => none
        match t.deriv e, rt' with
        | some t', some rt' =>
          match lookupThread st.thr i, th.toList with
          | some want, [c] =>
            if want == c then ({ st with tr := some t', rt := rt' }, "ok")
            else ({ st with tr := some t', rt := rt' }, s!"thread {inst} expected {want} got {c}")
          | _, _ => ({ st with tr := some t', rt := rt' }, "ok")
        | _, _ => (st, s!"reject {k} {inst}")
    | none => (st, "bad-op")
  | ["trace-end"] =>
    match st.tr with
    | some t =>
      ({ st with tr := none, rt := none },
        if t.finalOk false then
          (if t.hasPanic then "accept panicked"
           else match st.rt with
             | some r => if r.nullable then "accept ok" else "reject incomplete"
             | none => "reject incomplete")
        else "reject incomplete")
    | none => (st, "bad-op")
  | ["lifecycle", what] =>
    match st.frames with
    | f :: _ =>
      let sb := f.b.stagesBuilder
      let evs := if what == "setup" then setupOrder sb.stages f.b.threadLocal f.lsetup
                 else disposeOrder sb.stages f.b.threadLocal f.ldispose
      let sh : LEv → String
        | .S t => s!"S{t}"
        | .C t k => s!"C{t}:{k}"
        | .X t => s!"X{t}"
      (st, if evs.isEmpty then "-" else " ".intercalate (evs.map sh))
    | [] => (st, "bad-op")
  | ["setup-world", present] =>
    match st.frames with
    | f :: _ =>
      let sb := f.b.stagesBuilder
      let w : LWorld := (parseList present).filterMap fun x =>
        match x.splitOn "=" with
        | [k, v] => match parseRes k, v.toNat? with
          | [r], some v => some (r, v)
          | _, _ => none
        | _ => none
      let w' := setupWorld (setupOrder sb.stages f.b.threadLocal f.lsetup) w
      (st, if w'.isEmpty then "-" else ",".intercalate (w'.map fun p => s!"{p.1.ty}.{p.1.dyn}={p.2}"))
    | [] => (st, "bad-op")
  | ["effects", k] =>
    match st.frames, k.toNat? with
    | f :: _, some k =>
      let e := effects f st.decls k
      let w := ",".intercalate (effKeys.map fun r => s!"{r.ty}.{r.dyn}={showU64 (e.world r)}")
      let tags := (st.decls.map (·.1)).reverse
      let l := ",".intercalate (tags.map fun t => s!"{t}:{showU64 (e.locals t).1}:{showU64 (e.locals t).2}")
      (st, s!"world {w} locals {if l.isEmpty then "-" else l}")
    | _, _ => (st, "bad-op")
  | _ => (st, "bad-op")

end Shred.Drv.Plan
