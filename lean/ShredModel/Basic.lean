def hello := "world"
