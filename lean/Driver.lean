import ShredModel.Model.Builder
import ShredModel.Model.Plan
/-! Line-protocol front end of the model (plan engine). One request per line, one answer per line. -/
open Shred

def hexVal (c : Char) : Nat :=
  if '0' ≤ c ∧ c ≤ '9' then c.toNat - '0'.toNat
  else if 'a' ≤ c ∧ c ≤ 'f' then c.toNat - 'a'.toNat + 10
  else 0

/-- names travel hex-encoded (UTF-8 bytes) so that they may contain anything -/
def unhex (s : String) : String :=
  let rec go : List Char → List UInt8
    | a :: b :: rest => (UInt8.ofNat (hexVal a * 16 + hexVal b)) :: go rest
    | _ => []
  if s == "-" then "" else
  match String.fromUTF8? (ByteArray.mk (go s.toList).toArray) with
  | some r => r
  | none => ""

def hexDigit (n : Nat) : Char := if n < 10 then Char.ofNat (n + 48) else Char.ofNat (n - 10 + 97)

def hex (s : String) : String :=
  if s.isEmpty then "-" else
  String.ofList (s.toUTF8.toList.flatMap fun b => [hexDigit (b.toNat / 16), hexDigit (b.toNat % 16)])

def parseList (s : String) : List String := if s == "-" then [] else s.splitOn ","

def parseRes (s : String) : List ResId :=
  (parseList s).filterMap fun x =>
    match x.splitOn "." with
    | [a, b] => match a.toNat?, b.toNat? with
      | some ty, some dyn => some ⟨ty, dyn⟩
      | _, _ => none
    | _ => none

def showNested (t : List (List (List Nat))) : String :=
  "[" ++ ",".intercalate (t.map fun st => "[" ++ ",".intercalate (st.map fun g =>
    "[" ++ ",".intercalate (g.map toString) ++ "]") ++ "]") ++ "]"

def showPanic : BuildPanic → String
  | .unknownDep n => s!"panic unknownDep {hex n}"
  | .duplicateName n => s!"panic duplicateName {hex n}"

/-- driver state: stack of builders (head = innermost batch being filled) and the residual
task of the trace being validated, if any -/
structure St where
  bs : List DispatcherBuilder := [{}]
  tr : Option (RTask SysTag) := none

def step (st : St) (line : String) : St × String :=
  match line.trimAscii.toString.splitOn " " with
  | ["new"] => ({}, "ok")
  | ["sys", tag, name, deps, r, w, t] =>
    match st.bs, tag.toNat?, t.toNat? with
    | b :: rest, some tag, some t =>
      let (b', p) := b.add tag (unhex name) ((parseList deps).map unhex) ⟨parseRes r, parseRes w, t⟩
      ({ st with bs := b' :: rest }, match p with | none => "placed" | some p => showPanic p)
    | _, _, _ => (st, "bad-op")
  | ["barrier"] =>
    match st.bs with
    | b :: rest => ({ st with bs := b.addBarrier :: rest }, "ok")
    | [] => (st, "bad-op")
  | ["tl", tag, _r, _w] =>
    match st.bs, tag.toNat? with
    | b :: rest, some tag => ({ st with bs := b.addThreadLocal tag :: rest }, "ok")
    | _, _ => (st, "bad-op")
  | ["batch-begin"] => ({ st with bs := ({} : DispatcherBuilder) :: st.bs }, "ok")
  | ["batch-end", tag, name, deps, _ctl, r, w, t, _n] =>
    match st.bs, tag.toNat?, t.toNat? with
    | inner :: b :: rest, some tag, some t =>
      let (b', p) := b.addBatch tag (unhex name) ((parseList deps).map unhex) ⟨parseRes r, parseRes w, t⟩ inner
      ({ st with bs := b' :: rest }, match p with | none => "placed" | some p => showPanic p)
    | _, _, _ => (st, "bad-op")
  | ["layout"] =>
    match st.bs with
    | b :: _ =>
      let sb := b.stagesBuilder
      (st, s!"ids={showNested sb.ids} sys={showNested sb.stages} tl=[{",".intercalate (b.threadLocal.map toString)}] barrier={sb.barrier} maxthreads={b.maxThreads}")
    | [] => (st, "bad-op")
  | ["debug"] =>
    match st.bs with
    | b :: _ => (st, hex b.writeParSeq)
    | [] => (st, "bad-op")
  | ["trace-begin", mode] =>
    match st.bs with
    | b :: _ =>
      let t := if mode == "seq" then dispatchSeqTask b.stagesBuilder.stages b.threadLocal
               else dispatchTask b.stagesBuilder.stages b.threadLocal
      ({ st with tr := some t.toR }, "ok")
    | [] => (st, "bad-op")
  | ["ev", k, tag] =>
    match st.tr, tag.toNat? with
    | some t, some tag =>
      let e : Ev SysTag := if k == "F" then .F tag else .D tag
      match t.deriv e with
      | some t' => ({ st with tr := some t' }, "ok")
      | none => (st, s!"reject {k} {tag}")
    | _, _ => (st, "bad-op")
  | ["trace-end"] =>
    match st.tr with
    | some t => ({ st with tr := none }, if t.nullable then "accept" else "reject incomplete")
    | none => (st, "bad-op")
  | _ => (st, "bad-op")

partial def loop (h : IO.FS.Stream) (out : IO.FS.Stream) (st : St) : IO Unit := do
  let line ← h.getLine
  if line.isEmpty then return ()
  let (st', ans) := step st line
  out.putStrLn ans
  out.flush
  loop h out st'

def main : IO Unit := do loop (← IO.getStdin) (← IO.getStdout) {}
