import ShredModel.Drv.Plan
import ShredModel.Drv.SysData
/-!
Line-protocol front end of the model. One request per line, one answer per line. The first
word selects the sub-model; anything else goes to the builder / task model.
Every sub-model lives in `ShredModel/Drv/<Name>.lean` and exposes `St` and
`step : St → List String → St × String`.
-/
open Shred

structure St where
  plan : Drv.Plan.St := {}
  sd : Drv.SysData.St := {}

def step (st : St) (line : String) : St × String :=
  match line.trimAscii.toString.splitOn " " with
  | "sd" :: ws =>
    let (s, o) := Drv.SysData.step st.sd ws
    ({ st with sd := s }, o)
  | ws =>
    let (s, o) := Drv.Plan.step st.plan ws
    ({ st with plan := s }, o)

partial def loop (h : IO.FS.Stream) (out : IO.FS.Stream) (st : St) : IO Unit := do
  let line ← h.getLine
  if line.isEmpty then return ()
  let (st', ans) := step st line
  out.putStrLn ans
  out.flush
  loop h out st'

def main : IO Unit := do loop (← IO.getStdin) (← IO.getStdout) {}
